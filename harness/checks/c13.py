"""C13 - indicator series are causal.
M: IndicatorStream.tla (an indicator as a transducer fed one candle at a time; AppendOnly / StableButTail) checked by
   TLC on a tiny instance, including the two quirk actions that must violate the property (non-vacuity).
T: for every public indicator with a `sequential` parameter and every returned field, the series the real function
   returns on growing prefixes of several candle series are logged as integers and TLC (TraceCausal.tla) decides
   whether each longer run extends the shorter one.  No model of the numerics: the level is `exploration`."""
import contextlib, io, json, math, random
import numpy as np
from .. import tlc
from ..core import Machinery
from ..drivers import indicators as D

META = dict(
    category="exploration",
    technique="TLA+ transducer model of a sequential indicator (IndicatorStream.tla: Emit appends one entry per candle; "
              "AppendOnly, with the extrema detector's bounded revisable tail as the only exemption) model-checked by TLC "
              "on a tiny instance; recorded runs of every public indicator on growing prefixes of lattice candle series "
              "are validated by TLC against that relation (TraceCausal.tla)",
    text="TLC judges recorded relations only: for every public indicator of jesse.indicators that accepts sequential=True "
         "(introspected; every namedtuple field; default and perturbed parameters; close/high/low/open/volume/hl2/hlc3/"
         "ohlc4 sources; random, trending, flat, spiky, alternating and real-valued series) the sequential series computed "
         "on prefixes must be extended, position by position within one logging unit (1e-6 of the series' magnitude; "
         "NaN/inf as distinct tokens), by the series computed on longer inputs. minmax may differ in exactly its `order` "
         "trailing positions. There is no specification of the numerics and no exhaustive input space: this is "
         "exploration with TLC as the oracle of the structural relation.",
    note="Trusted: TLC, the integer logging (round(v/unit)), the 40-line generic caller. Prefix lengths are sampled "
         "(8 lengths per 300-candle series, 500/3400 on one long series; thorough adds every length 1..120 on two series). "
         "Inputs are at least as long as the sum of the indicator's period parameters (below that several numba kernels "
         "leave defined behaviour; the harness runs them with NUMBA_BOUNDSCHECK=1 and in forked children). Indicators "
         "raising on an input are skipped for that length (counted). A rejection is reported only if it is confirmed on the "
         "1e-6-jittered twin of the series (last-bit ties on lattice inputs are not look-ahead). Six public functions have no `sequential` parameter and are outside the "
         "property; they are listed in the evidence.",
    design_ref="4/C13")

KINDS_Q = [("random", 300, 1), ("trend", 300, 1), ("flat", 300, 1), ("spike", 300, 1)]
KINDS_T = KINDS_Q + [("random", 300, 2), ("alternating", 300, 1), ("monotone", 300, 1), ("real", 300, 1), ("real", 300, 2),
                     ("trend", 300, 2), ("spike", 300, 3), ("random", 300, 3, 2.0 ** 20), ("spike", 300, 4, 2.0 ** -20)]
PREFIXES = [20, 45, 64, 100, 150, 199, 241, 300]
LONG = ("random", 3400, 5)
LONG_PREFIXES = [500, 3400]


def stream_cfg(exempt, quirk, props, maxfed=5):
    return ("SPECIFICATION Spec\nCHECK_DEADLOCK FALSE\nCONSTANTS Vals = {1, 2} MaxFed = %d Exempt = %d Quirk = \"%s\"\n"
            "INVARIANT TypeOK\n" % (maxfed, exempt, quirk)) + "".join(
        ("INVARIANT %s\n" if p == "LenIsFed" else "PROPERTY %s\n") % p for p in props)


def model_runs(ctx, which):
    """(label, exempt, quirk, properties, expected violated property or None)"""
    for label, exempt, quirk, props, expect in which:
        r = tlc.run("IndicatorStream", cfg_text=stream_cfg(exempt, quirk, props, ctx.pick(5, 7)), workers=1,
                    coverage=True, timeout=300)
        got = r.violation["name"] if r.violation else None
        if expect is None:
            if got:
                raise Machinery("IndicatorStream %s: unexpected violation of %s" % (label, got))
            ctx.add_tlc(r, "IndicatorStream " + label)
        else:
            if got != expect:
                raise Machinery("IndicatorStream %s: expected %s to be violated, TLC says %r" % (label, expect, got))
            ctx.coverage.setdefault("model_sensitivity", []).append(
                "%s: TLC reports %s violated (as it must)" % (label, expect))


def params_key(kw):
    return ",".join("%s=%s" % (k, kw[k]) for k in sorted(kw)) or "defaults"


def job(item):
    """one indicator: all variants x series x prefixes -> recorded traces (no verdicts here)"""
    entry, vs, specs, prefix_sets = item[:4]
    nvs = item[4] if len(item) > 4 else [len(vs)] * len(specs)      # how many of the parameter sets each series gets
    traces, stats = [], {"calls": 0, "skipped": 0, "not_series": set(), "exc": {}}
    with contextlib.redirect_stdout(io.StringIO()):
        for si, sp in enumerate(specs):
            c = D.build_series(sp)
            c2 = D.build_series((sp[0], sp[1], sp[2] + 1000) + tuple(sp[3:]))
            ps = D.pscale_of(c)
            for kw in vs[:nvs[si]]:
                prefixes = prefix_sets[si]
                traces += record(entry, kw, sp, prefixes, c, c2, ps, stats)
    stats["not_series"] = sorted(stats["not_series"])
    return entry["name"], traces, stats


def record(entry, kw, sp, prefixes, c, c2, ps, stats, only_field=None):
    runs = {}
    lo = D.min_len(entry, kw)
    prefixes = [k for k in prefixes if k >= lo]
    for k in prefixes:
        stats["calls"] += 1
        try:
            r = D.call(entry, c[:k], c2[:k], kw, True)
            runs[k] = {f: D.as_list(v) for f, v in D.fields_of(r)}
        except Exception as ex:
            stats["skipped"] += 1
            stats["exc"][D.exc_name(ex)] = stats["exc"].get(D.exc_name(ex), 0) + 1
    ok = [k for k in prefixes if k in runs]
    if len(ok) < 2:
        return []
    full = runs[ok[-1]]
    out = []
    for f, ref in full.items():
        if only_field and f != only_field:
            continue
        if ref is None:
            stats["not_series"].add(f)
            continue
        kind = "str" if any(D.kind_of(runs[k].get(f) or []) == "str" for k in ok) else "num"
        unit = D.scale_of(ref, ps) * 1e-6
        ev = []
        for k in ok:
            s = runs[k].get(f)
            if s is None:
                continue
            ev.append({"len": k, "out": D.enc_series(s, kind, unit)})
        if len(ev) < 2:
            continue
        finite = sum(1 for v in ev[-1]["out"] if (isinstance(v, int) and abs(v) <= D.CLAMP) or isinstance(v, str))
        exempt = int(kw.get("order", entry["params"].get("order", 0))) if entry["name"] == "minmax" else 0
        out.append({"hdr": {"ind": entry["name"], "field": f, "kind": kind, "exempt": exempt, "params": params_key(kw),
                            "series": list(sp), "finite": finite},
                    "ev": ev, "kw": kw})
    return out


def plan(ctx, cat):
    rng = random.Random(ctx.seed)
    specs = ctx.pick(KINDS_Q, KINDS_T)
    nvar = ctx.pick(3, 12)
    items = []
    for e in cat:
        if not e["sequential"]:
            continue
        vs = D.variants(e, rng, nvar, sweep=not ctx.quick)
        nrand = len(vs)
        # the smallest window lengths (1, 2, 3) for every period-like parameter; values an indicator rejects raise -> skipped
        seen = {tuple(sorted(v.items())) for v in vs}
        for b in D.boundary_variants(e) + D.matype_variants(e):
            if tuple(sorted(b.items())) not in seen:
                seen.add(tuple(sorted(b.items())))
                vs.append(b)
        sp = list(specs)
        pre = [PREFIXES for _ in specs]
        nv = [len(vs) if i < ctx.pick(2, len(specs)) else nrand for i in range(len(specs))]
        # flat stretches (open = high = low = close for 15-40 candles) embedded between moving parts, cut inside, at the
        # end of and just after every stretch
        for ps in ctx.pick([1], [1, 2, 3]):
            sp.append(("plateau", 300, ps))
            pre.append(D.plateau_cuts(300, ps, full=not ctx.quick))
            nv.append(len(vs))
        # stretches without any traded volume (15-60 candles, also at the very start) while the price keeps moving,
        # cut inside, at the end of and shortly after every stretch
        # regime change: a very quiet (not constant) stretch followed by a volatile one, and the reverse - for both candle
        # arrays of the two-array indicators - cut around the boundary (normalisers taken over the whole input)
        for kd, ps in ctx.pick([("regime", 1), ("regime_r", 2)], [("regime", 1), ("regime", 3), ("regime_r", 2), ("regime_r", 4)]):
            sp.append((kd, 300, ps))
            pre.append(D.regime_cuts(300, ps, full=not ctx.quick))
            nv.append(len(vs) if not ctx.quick else min(len(vs), nrand))
        for ps in ctx.pick([1], [1, 2, 3, 4]):
            sp.append(("zerovol", 300, ps))
            pre.append(D.zerovol_cuts(300, ps, full=not ctx.quick))
            nv.append(len(vs))
        # one long series: closed-form kernels whose powers overflow make EARLY values depend on the input length
        sp.append(LONG)
        pre.append(LONG_PREFIXES)
        nv.append(ctx.pick(2, 6))
        if not ctx.quick:
            # every prefix length on two short series (defaults and one perturbed parameter set)
            sp += [("random", 120, 7), ("spike", 120, 7)]
            pre += [list(range(1, 121)), list(range(1, 121))]
            nv += [3, 3]
        items.append((e, vs, sp, pre, nv))
    return items


def sig_of(h, verdict):
    return "%s.%s:%s" % (h["ind"], h["field"], verdict.split(":")[0])


def judge(ctx, traces, parts, first_id=1):
    """TLC's verdict per trace: {trace id: (events consumed, verdict)}"""
    for i, t in enumerate(traces):
        t["id"] = first_id + i
    slim = [{"id": t["id"], "hdr": {k: t["hdr"][k] for k in ("kind", "exempt")}, "ev": t["ev"]} for t in traces]
    verdicts, results = tlc.validate_traces("TraceCausal", "TraceCausal.cfg", slim, ctx.scratch, parts=parts, timeout=2400,
                                             heap=ctx.pick("1g", "2g"), max_procs=ctx.pick(16, 12))
    for t in traces:
        if verdicts[t["id"]][1].startswith("trace:"):
            raise Machinery("malformed trace %s.%s: %s" % (t["hdr"]["ind"], t["hdr"]["field"], verdicts[t["id"]][1]))
    return verdicts, results


def alt_future(sp, short, long_):
    """candles that share the first `short` rows with the series and continue differently up to `long_` rows"""
    c = D.build_series(sp)[:long_].copy()
    other = D.build_series((("trend" if sp[0] != "trend" else "random"), sp[1], sp[2] + 7777) + tuple(sp[3:]))[:long_]
    shift = c[short - 1, 2] - other[short - 1, 2]
    c[short:, 1:5] = np.maximum(other[short:, 1:5] + shift, 1.0) if sp[0] != "real" else other[short:, 1:5] * (c[short - 1, 2] / other[short - 1, 2])
    c[short:, 5] = other[short:, 5]
    return c


def mirrored_future(sp, short, long_):
    """candles that share the first `short` rows with the series and continue with the SAME kind of market: the shared part
    replayed backwards (levels continued from the last shared close)"""
    c = D.build_series(sp)[:long_].copy()
    k = long_ - short
    idx = [short - 1 - (j % short) for j in range(k)]
    seg = c[idx, :].copy()
    shift = c[short - 1, 2] - seg[0, 1]
    c[short:, 1:5] = np.maximum(seg[:, 1:5] + shift, 1e-9)
    c[short:, 5] = seg[:, 5]
    return c


def twin_job(item):
    """two confirmations for every rejected case of one indicator:
    (a) the same case on the jittered twin of the series (same shape, no exact ties between candles);
    (b) the same input length with a DIFFERENT future: the run on the candles up to the failing length against the run on
        candles that share the shorter prefix and continue differently - equal array shapes, so last-bit effects of
        vectorised kernels cancel, while a dependence on later candles shows on the shared positions."""
    entry, cases = item
    out = []
    stats = {"calls": 0, "skipped": 0, "not_series": set(), "exc": {}}
    with contextlib.redirect_stdout(io.StringIO()):
        for kw, sp, prefixes, field, short, long_ in cases:
            spj = tuple(sp[:3]) + ((sp[3] if len(sp) > 3 else 1.0), "jitter")
            c = D.build_series(spj)
            c2 = D.build_series((spj[0], spj[1], spj[2] + 1000) + tuple(spj[3:]))
            try:
                a = record(entry, kw, spj, prefixes, c, c2, D.pscale_of(c), stats, only_field=field)
            except Exception:
                a = None
            b = None
            try:
                co = D.build_series(sp)[:long_]
                sp2 = (sp[0], sp[1], sp[2] + 1000) + tuple(sp[3:])
                c2o = D.build_series(sp2)[:long_]
                ro = dict(D.fields_of(D.call(entry, co, c2o, kw, True)))[field]
                so = D.as_list(ro)
                unit = D.scale_of(so, D.pscale_of(co)) * 1e-6
                exempt = int(kw.get("order", entry["params"].get("order", 0))) if entry["name"] == "minmax" else 0
                b = []
                # a different future (another kind of market) and a mirrored one (the same kind of market), for both arrays
                for ca, c2a in ((alt_future(sp, short, long_), alt_future(sp2, short, long_)),
                                (mirrored_future(sp, short, long_), mirrored_future(sp2, short, long_))):
                    ra = dict(D.fields_of(D.call(entry, ca, c2a, kw, True)))[field]
                    sa = D.as_list(ra)
                    kind = "str" if D.kind_of(so) == "str" or D.kind_of(sa) == "str" else "num"
                    b.append({"hdr": {"ind": entry["name"], "field": field, "kind": kind, "exempt": exempt,
                                      "params": params_key(kw), "series": list(sp), "finite": 0},
                              "ev": [{"len": short, "out": D.enc_series(sa, kind, unit)},
                                     {"len": long_, "out": D.enc_series(so, kind, unit)}],
                              "kw": kw})
            except Exception:
                b = None
            out.append((a, b))
    return out


def confirm_and_report(ctx, cat, traces, verdicts):
    """A rejected trace is reported when TLC also rejects one of its two confirmation traces (twin_job): the same case on
    the jittered twin series, or the failing input length with a different future.  On integer-lattice
    (and exactly periodic) inputs, discontinuous indicators (flags, adaptive periods) decide exact ties by the last bit of
    a float, and that bit legitimately differs between vectorised runs of different length; a look-ahead, a global
    normaliser or a wrap-around survives a 1e-6 jitter of the input, a last-bit tie does not."""
    by_name = {e["name"]: e for e in cat}
    rejected = [t for t in traces if verdicts[t["id"]][1] != "ok"]
    groups = {}
    for t in rejected:
        groups.setdefault(t["hdr"]["ind"], []).append(t)
    names = sorted(groups)
    def failing_pair(t):
        l = verdicts[t["id"]][0]
        return t["ev"][max(l - 2, 0)]["len"], t["ev"][l - 1]["len"]
    items = [(by_name[n], [(t["kw"], tuple(t["hdr"]["series"]), [e["len"] for e in t["ev"]], t["hdr"]["field"]) + failing_pair(t)
                           for t in groups[n]]) for n in names]
    twins = D.pmap(twin_job, items) if items else []
    twin_traces, owner = [], {}
    for n, r in zip(names, twins):
        if isinstance(r, tuple) and r and r[0] in ("EXC", "CRASH"):
            continue
        for t, (xa, xb) in zip(groups[n], r):
            for x in (xa or []) + (xb or []):
                owner[len(twin_traces)] = t["id"]
                twin_traces.append(x)
    confirmed = {}
    if twin_traces:
        v2, _ = judge(ctx, twin_traces, parts=min(16, len(twin_traces)), first_id=len(traces) + 1)
        for i, x in enumerate(twin_traces):          # confirmed when EITHER confirmation trace is rejected as well
            confirmed[owner[i]] = confirmed.get(owner[i], False) or v2[x["id"]][1] != "ok"
    bad, ties = 0, []
    for t in rejected:
        l, v = verdicts[t["id"]]
        h = t["hdr"]
        if confirmed.get(t["id"], True) is False:
            ties.append("%s(%s).%s on %s" % (h["ind"], h["params"], h["field"], h["series"]))
            continue
        bad += 1
        ctx.violation(sig_of(h, v), "%s(%s).%s on series %s: the run on %d candles does not extend the shorter run: %s" % (
            h["ind"], h["params"], h["field"], h["series"], t["ev"][l - 1]["len"], v),
            {"ind": h["ind"], "kw": t["kw"], "series": h["series"], "field": h["field"],
             "prefixes": [e["len"] for e in t["ev"]]})
    return bad, ties


def run(ctx):
    ctx.level = META["category"]
    model_runs(ctx, [("plain kernel", 0, "none", ["LenIsFed", "AppendOnly", "SingleIsConfirmed"], None),
                     ("extrema detector, order 2", 2, "none", ["LenIsFed", "StableButTail", "SingleIsConfirmed"], None),
                     ("quirk reseed (rma-like)", 0, "reseed", ["AppendOnly"], "AppendOnly"),
                     ("extrema detector without its exemption", 2, "none", ["AppendOnly"], "AppendOnly")])
    cat = D.catalog()
    outside = [e["name"] for e in cat if not e["sequential"]]
    items = plan(ctx, cat)
    ctx.log("evaluating %d indicators" % len(items))
    res = D.pmap(job, items)
    crashed = []
    # a child that died (memory-unsafe kernel) is retried one parameter set at a time; what dies again is listed
    retry = [(it[0], [kw], it[2], it[3], [1 if j < n else 0 for n in it[4]])
             for it, r in zip(items, res) if r[0] == "CRASH" for j, kw in enumerate(it[1])]
    res = [r for r in res if r[0] != "CRASH"]
    if retry:
        for it, r in zip(retry, D.pmap(job, retry)):
            if r[0] == "CRASH":
                crashed.append("%s(%s): %s" % (it[0]["name"], params_key(it[1][0]), r[1]))
            else:
                res.append(r)
    traces, calls, skipped, notseries, excs = [], 0, 0, {}, {}
    per_ind = {}
    for r in res:
        if r[0] == "EXC":
            raise Machinery("worker failed: %s" % r[1])
        name, tr, st = r
        traces += tr
        calls += st["calls"]
        skipped += st["skipped"]
        per_ind[name] = per_ind.get(name, 0) + len(tr)
        if st["not_series"]:
            notseries[name] = st["not_series"]
        for k, v in st["exc"].items():
            excs[k] = excs.get(k, 0) + v
    silent = sorted(n for n, k in per_ind.items() if k == 0)
    if silent:
        raise Machinery("no trace recorded for %s (the generic caller no longer fits)" % silent)
    ctx.log("%d traces from %d calls (%d skipped)" % (len(traces), calls, skipped))
    verdicts, results = judge(ctx, traces, parts=ctx.pick(16, 48))
    bad, ties = confirm_and_report(ctx, cat, traces, verdicts)
    for t in traces:
        h = t["hdr"]
        if h["finite"] >= 30:
            ctx.nontrivial.add((h["ind"], h["field"], h["params"], tuple(h["series"])))
    ctx.evaluations = len(traces)
    samples = []
    for t in traces[:: max(1, len(traces) // 3)][:3]:
        samples.append({"indicator": t["hdr"]["ind"], "field": t["hdr"]["field"], "params": t["hdr"]["params"],
                        "series": t["hdr"]["series"], "runs": [{"len": e["len"], "first_tokens": e["out"][:6],
                                                                "last_tokens": e["out"][-3:]} for e in t["ev"][:3]]})
    ctx.coverage.update({
        "traces_validated_against_impl": len(traces), "indicator_calls": calls, "calls_skipped_exception": skipped,
        "exception_classes": excs, "indicators_covered": len(per_ind), "interpreter_crashes": crashed,
        "fields_covered": len({(t["hdr"]["ind"], t["hdr"]["field"]) for t in traces}),
        "outside_property_no_sequential_parameter": outside, "non_series_fields": notseries,
        "trace_events_checked_by_tlc": sum(r.generated for r in results), "rejected_traces": bad,
        "rejected_on_lattice_but_accepted_on_jittered_twin_not_reported": ties[:40],
        "samples": samples,
        "rule": "one case = (indicator, field, parameter set, candle series): the sequential series on growing prefixes "
                "(%s%s; one long series of 3400 candles with prefixes 500 and 3400). Non-trivial = the longest run has >= 30 finite (non-NaN) entries and >= 2 runs succeeded; distinct "
                "by (indicator, field, parameters, series)." % (PREFIXES, "" if ctx.quick else "; every length 1..120 on two series"),
    })
    ctx.assumptions += [
        "tolerance: two runs agree at a position when their tokens round(v/unit) differ by at most 1, unit = 1e-6 x "
        "max(|finite values of the longest run|, 1e-6 x max close); NaN, +inf and -inf only equal themselves",
        "an indicator that raises on a (short) input is skipped for that length",
        "the second candle array of beta/rsmk is an independent series cut to the same prefix",
        "a rejected trace is reported only when TLC also rejects a confirmation trace of the same case: on the jittered twin of "
        "the series (every price and volume multiplied by 1 + 1e-9 u), or at the failing input length against candles that "
        "share the shorter prefix and continue differently - with another kind of market and with the shared part mirrored - "
        "(equal array shapes): exact ties on lattice / periodic inputs are decided by the last bit of a "
        "float, which differs between vectorised runs of different length (seen: hull_suit.signal on an alternating series, "
        "vlma with the smma selector on a lattice trend); structural look-ahead survives the jitter"]


def replay(ctx, rp):
    ctx.level = META["category"]
    p = rp["payload"]
    cat = {e["name"]: e for e in D.catalog()}
    e = cat[p["ind"]]
    sp = tuple(p["series"])
    c = D.build_series(sp)
    c2 = D.build_series((sp[0], sp[1], sp[2] + 1000) + tuple(sp[3:]))
    stats = {"calls": 0, "skipped": 0, "not_series": set(), "exc": {}}
    with contextlib.redirect_stdout(io.StringIO()):
        traces = record(e, p["kw"], sp, p["prefixes"], c, c2, D.pscale_of(c), stats, only_field=p["field"])
    if not traces:
        raise Machinery("replay produced no trace")
    verdicts, results = judge(ctx, traces, parts=1)
    bad, ties = confirm_and_report(ctx, D.catalog(), traces, verdicts)
    for t in traces:
        print("replay verdict:", t["hdr"]["ind"], t["hdr"]["field"], verdicts[t["id"]],
              "(not confirmed on the jittered twin)" if ties else "")
