"""X01 (extra, not in the MANIFEST) - whole-run model bound to the code in the spec -> code direction.

M: SimWhole.tla (WholeCore/WholeRun): feed + matching (normal and fast loop) + scripted strategy layer + futures account +
   hooks + trade log + equity samples for one symbol; TLC checks whole-run properties (both simulators in the same projected
   state at every chunk end, wallet = start + sum of trade pnl when flat, trade rows consistent) exhaustively on tiny
   instances and on every simulated behaviour.
R: `tlc -simulate` generates behaviours (candles and decisions are the nondeterministic choices, carried in a history
   variable); EVERY generated behaviour is executed by the real research.backtest in both simulators with a strategy scripted
   by the behaviour's decision rows; TraceSimWhole.tla lets TLC compare the projected whole-system state after every minute
   (normal) / chunk (fast) and the final trade log, equity samples, metrics and exception.
T: random scenarios (larger lattices, 1m/3m/5m/15m, 1440-minute flat prefixes that reach the daily equity sample)."""
import json, os, random, collections
from .. import tlc, session as S
from ..core import Machinery
from ..drivers import simwhole as W, simruns as R

META = dict(
    disabled=True,        # extra check: `bin/check X01` works, it is not registered in the MANIFEST
    category="model_checking",
    technique="whole-run TLA+ model (WholeCore/WholeRun/SimWhole) explored by TLC (exhaustive tiny instances + simulation); "
              "every generated behaviour replayed on the real research.backtest (both simulators) and compared minute by "
              "minute by TLC (TraceSimWhole)",
    text="One implementation run per model behaviour; compared after every minute: active orders (bag), position qty / average "
         "entry, wallet, available margin, hook word, last rows of the 1m and trading timeframe, closed trades; at the end trade "
         "log, equity samples, metrics total / net_profit, exception class (InsufficientMargin / InvalidStrategy end the run).",
    note="One symbol, cross margin, fee 0 / 1/256 / 1/64, leverage 1-2, quantities 1-2 per entry row (averages stay dyadic), "
         "scripted user (market/limit/stop entries with 1-2 rows, exits in go_*/on_open_position/relative, one stop-loss edit, "
         "should_cancel_entry, liquidate()).",
    design_ref="3 (StepSim/FastSim/SimEquiv growth), 10 step 11")

INV = ["SameRun", "FlatWallet", "TradesOK", "FlatMeansNoExits", "NoModelError"]


LIQFIX = [False]          # variant of liquidate() found in the tree (set by run/replay)


def sw_cfg(K, chunk, tf, n, qtys, modes, two, wrong, edits, start, lev, fee, invs, halves=True, liqfix=None):
    b = lambda x: "TRUE" if x else "FALSE"
    return ("SPECIFICATION Spec\nVIEW View\nCHECK_DEADLOCK FALSE\n"
            "CONSTANTS K = %d Chunk = %d TF = %d NMin = %d Qtys = {%s} Modes = {%s} TwoRows = %s WrongSide = %s Edits = %s Halves = %s\n"
            "CONSTANTS PB = %d PS = %d Lev = %d FeeNum = %d FeeDen = %d Start = %d DayLen = 1440 LiqFix = %s\n"
            % (K, chunk, tf, n, ", ".join(str(q) for q in qtys), ", ".join('"%s"' % m for m in modes), b(two), b(wrong), b(edits), b(halves),
               W.PB, W.PS, lev, fee[0], fee[1], start, b(LIQFIX[0] if liqfix is None else liqfix))
            + "".join("INVARIANT %s\n" % i for i in invs))


def judge(ctx, scens, label, stats):
    """run every scenario on both real simulators; TLC compares with the model (one TLC batch per constant set)"""
    if not scens:
        return
    res = W.run_wholes(scens)
    groups = collections.defaultdict(list)
    for j, (sc, (rn, rf)) in enumerate(zip(scens, res)):
        groups[(sc['start'], sc['lev'], tuple(sc['fee']))].append(W.whole_trace(j + 1, sc, rn, rf))
    for key, tr in sorted(groups.items()):
        d = ctx.sub("whole-%s-%d-%d-%d-%d" % (label, key[0], key[1], key[2][0], key[2][1]))
        sc0 = scens[tr[0]['id'] - 1]
        verdicts, results = tlc.validate_traces("TraceSimWhole", W.whole_cfg(d, sc0, LIQFIX[0]), tr, d, parts=min(16, max(1, len(tr) // 8)),
                                                timeout=2400)
        for r in results:
            stats['tlc_states'] += r.generated
        for tid, (nf, status, cursor, v) in sorted(verdicts.items()):
            sc, (rn, rf) = scens[tid - 1], res[tid - 1]
            stats['scenarios'] += 1
            stats['fills'] += nf
            stats['status'][status] += 1
            stats['minutes'] += len(rn['proj']) + len(rf['proj'])
            words = [h for p in rn['proj'] for h in p['hooks']]
            for w in set(words):
                stats['hook'][w] += 1
            if len(rn['trades']) >= 1:
                stats['with_trades'] += 1
            if len(rn['daily']) > 2:
                stats['with_daily_sample'] += 1
            if any(e['row']['close'] for e in sc['hist']):
                stats['with_liquidate'] += 1
            if any(e['row']['edit'] for e in sc['hist']):
                stats['with_edit'] += 1
            if nf >= 2 and status == 'run':
                ctx.nontrivial.add((label, sc['tf'], sc['chunk'], tid))
            if v != "ok":
                ctx.violation("whole:" + v, "scenario %s/%d (lattice %d, chunk %d, trading %dm, start %d, lev %d, fee %s): model and "
                              "code differ: %s (after %d projections)" % (label, tid, sc['K'], sc['chunk'], sc['tf'], sc['start'], sc['lev'],
                                                                           sc['fee'], v, cursor),
                              {"scenario": sc})
            elif len(stats['samples']) < 2 and nf >= 3 and status == 'run':
                stats['samples'].append({"scenario": {k: sc[k] for k in sc if k != 'hist'}, "steps": sc['hist'][:6],
                                         "normal_projections": rn['proj'][:4], "trades": rn['trades'][:2],
                                         "equity_samples": rn['daily']})


def judge2(ctx, scens, label, stats):
    """two symbols on one wallet: same procedure with WholeRun2 / TraceSimWhole2"""
    if not scens:
        return
    res = W.run_wholes2(scens)
    groups = collections.defaultdict(list)
    for j, (sc, (rn, rf)) in enumerate(zip(scens, res)):
        groups[(sc['start'], sc['lev'], tuple(sc['fee']))].append(W.whole_trace2(j + 1, sc, rn, rf))
    for key, tr in sorted(groups.items()):
        d = ctx.sub("whole2-%s-%d-%d-%d-%d" % (label, key[0], key[1], key[2][0], key[2][1]))
        sc0 = scens[tr[0]['id'] - 1]
        verdicts, results = tlc.validate_traces("TraceSimWhole2", W.whole_cfg(d, sc0, LIQFIX[0]), tr, d,
                                                parts=min(16, max(1, len(tr) // 8)), timeout=2400)
        for r in results:
            stats['tlc_states'] += r.generated
        for tid, (nf, status, cursor, v) in sorted(verdicts.items()):
            sc, (rn, rf) = scens[tid - 1], res[tid - 1]
            stats['two_symbol_scenarios'] += 1
            stats['two_symbol_fills'] += nf
            stats['two_symbol_status'][status] += 1
            stats['minutes'] += len(rn['proj']) + len(rf['proj'])
            both = any(p['qa'] != 0 and p['qb'] != 0 for p in rn['proj'])
            stats['two_symbol_both_positions_open'] += 1 if both else 0
            if nf >= 2 and status == 'run':
                ctx.nontrivial.add((label, 'two-symbols', sc['tf'], sc['chunk'], tid))
            if v != "ok":
                ctx.violation("whole2:" + v, "two-symbol scenario %s/%d (lattice %d, chunk %d, trading %dm, start %d, lev %d, fee %s): model "
                              "and code differ: %s (after %d projections)" % (label, tid, sc['K'], sc['chunk'], sc['tf'], sc['start'],
                                                                              sc['lev'], sc['fee'], v, cursor), {"scenario2": sc})


def pair_up(scens, rng, limit):
    """single-symbol scenarios of equal shape -> two-symbol scenarios (A's script on BTC-USDT, B's on ETH-USDT)"""
    by = collections.defaultdict(list)
    for sc in scens:
        by[(sc['tf'], sc['chunk'], sc['start'], sc['lev'], tuple(sc['fee']), tuple(len(e['raw']) for e in sc['hist']))].append(sc)
    out = []
    for key, lst in sorted(by.items(), key=lambda kv: str(kv[0])):
        rng.shuffle(lst)
        for a, b in zip(lst[0::2], lst[1::2]):
            p = W.pair_scenarios(a, b)
            if p:
                out.append(p)
    rng.shuffle(out)
    return out[:limit]


def from_tlc(r, chunk, tf, K, start, lev, fee):
    out = []
    for t in tlc.tagged(r, "RUN"):
        hist = json.loads(t[1])
        if sum(len(e["raw"]) for e in hist) < 2:
            continue
        out.append({"tf": tf, "chunk": chunk, "K": K, "start": start, "lev": lev, "fee": list(fee), "hist": hist})
    return out


def run(ctx):
    ctx.assumptions += ["one symbol, cross margin (no liquidation), the scripted user of harness/drivers/simwhole.py",
                        "quantities 1-2 per entry row and dyadic fee rates keep every float exact; compared as rationals"]
    R.warm_parent()
    LIQFIX[0] = W.detect_liqfix()
    ctx.coverage["liquidate_variant"] = "copy dropped first (repaired)" if LIQFIX[0] else "compares with the stale copy (defect present)"
    # ---------------- M: exhaustive tiny instances
    tiny_q = [(3, 2, 2, 4, [1], ["go"], False, False, False, 300, 1, (1, 64)),
              (3, 1, 1, 3, [2], ["go"], False, False, False, 200, 1, (1, 64))]
    tiny_t = tiny_q + [(3, 1, 1, 3, [1], ["open"], True, False, False, 300, 1, (0, 1)),
                       (3, 3, 3, 6, [1], ["go"], False, False, False, 300, 2, (1, 16)),
                       (3, 1, 1, 2, [1], ["rel"], False, True, True, 300, 1, (1, 64))]
    jobs, labels = [], []
    for c in ctx.pick(tiny_q, tiny_t):
        jobs.append(dict(module="SimWhole", cfg_text=sw_cfg(*c, invs=INV, halves=False), workers=4, timeout=3000))
        labels.append("SimWhole exhaustive K=%d chunk=%d trading=%d minutes=%d qtys=%s modes=%s two=%s wrong=%s edits=%s start=%d lev=%d fee=%s" % c)
    res = tlc.run_parallel(jobs, max_procs=4)
    for r, lab in zip(res, labels):
        ctx.add_tlc(r, lab)
        if r.violation:
            raise Machinery("%s violates %s\n%s" % (lab, r.violation["name"], r.violation["trace"][-4000:]))
    probes = [("ProbeTrade", [2], ["go"], False, False, 300), ("ProbeReject", [2], ["go"], False, False, 200),
              ("ProbeIncrease", [1], ["rel"], True, False, 300), ("ProbeInvalid", [1], ["go"], False, True, 300)]
    pres = tlc.run_parallel([dict(module="SimWhole", cfg_text=sw_cfg(3, 1, 1, 3, q, md, two, False, ed, st, 1, (1, 64), [p], halves=False),
                                  workers=2, timeout=900) for (p, q, md, two, ed, st) in probes], max_procs=4)
    probes = [p[0] for p in probes]
    for p, r in zip(probes, pres):
        if not r.violation or r.violation["name"] != p:
            raise Machinery("probe %s not reachable" % p)
    # liquidate() must close the position: holds for the repaired variant; for the tree's variant TLC exhibits the stale-copy
    # no-op (the canonical scenario of W.CANON_LIQ is that counter-example executed on the real code)
    lw = sw_cfg(3, 1, 1, 3, [2], ["go"], False, False, False, 300, 1, (0, 1), ["LiquidateWorks"], halves=True)
    r = tlc.run("SimWhole", cfg_text=lw, workers=4, timeout=1800)
    ctx.add_tlc(r, "SimWhole K=3 chunk=1 minutes=3 qty 2 half take-profit: LiquidateWorks (liquidate variant of the tree)")
    if LIQFIX[0] and r.violation:
        raise Machinery("LiquidateWorks violated for the repaired liquidate():\n%s" % r.violation["trace"][-3000:])
    if not LIQFIX[0]:
        if not r.violation or r.violation["name"] != "LiquidateWorks":
            raise Machinery("the model does not exhibit the liquidate() no-op that the code shows on the canonical scenario")
        ctx.violation("liquidate:no-op:stale-copy-of-executed-exit",
                      "liquidate() leaves the position open: TLC counter-example to SimWhole!LiquidateWorks, and the real "
                      "simulators do the same on the canonical scenario", {"scenario": W.CANON_LIQ})
        r2 = tlc.run("SimWhole", cfg_text=sw_cfg(3, 1, 1, 3, [2], ["go"], False, False, False, 300, 1, (0, 1), ["LiquidateWorks"],
                                                 halves=True, liqfix=True), workers=4, timeout=1800)
        ctx.add_tlc(r2, "SimWhole same instance, REPAIRED liquidate(): LiquidateWorks")
        if r2.violation:
            raise Machinery("the proposed repair of liquidate() does not satisfy LiquidateWorks in the model")
    ctx.log("M done: %d states" % ctx.coverage.get("states", 0))
    # ---------------- R: simulated behaviours, each replayed on the code
    rng = random.Random(ctx.seed)
    stats = dict(scenarios=0, fills=0, minutes=0, tlc_states=0, status=collections.Counter(), hook=collections.Counter(),
                 with_trades=0, with_daily_sample=0, with_liquidate=0, with_edit=0, samples=[], two_symbol_scenarios=0,
                 two_symbol_fills=0, two_symbol_status=collections.Counter(), two_symbol_both_positions_open=0)
    num = ctx.pick(40, 600)
    sims = [(5, 3, 3, 12, 700, 1, (1, 64)), (4, 1, 1, 6, 400, 1, (1, 16)), (5, 1, 3, 9, 400, 2, (0, 1)), (6, 5, 5, 15, 2000, 2, (1, 64)),
            (4, 3, 3, 9, 400, 1, (0, 1)), (5, 3, 15, 30, 700, 2, (1, 16))]
    sjobs = []
    for k, (K, ch, tf, n, start, lev, fee) in enumerate(sims):
        sjobs.append(dict(module="SimWhole", workers=2, simulate="num=%d" % num, depth=40 + 12 * n, seed=ctx.seed * 100 + k, timeout=2400,
                          cfg_text=sw_cfg(K, ch, tf, n, [1, 2], ["go", "open", "rel"], True, True, True, start, lev, fee, INV + ["Export"])))
    sres = tlc.run_parallel(sjobs, max_procs=6)
    n_beh = 0
    tlc_scens = []
    for (K, ch, tf, n, start, lev, fee), r in zip(sims, sres):
        if r.violation:
            raise Machinery("a simulated behaviour violates %s:\n%s" % (r.violation["name"], r.violation["trace"][-4000:]))
        ctx.add_tlc(r, "SimWhole -simulate K=%d chunk=%d trading=%d minutes=%d start=%d lev=%d fee=%s" % (K, ch, tf, n, start, lev, fee))
        sc = from_tlc(r, ch, tf, K, start, lev, fee)
        n_beh += len(sc)
        tlc_scens += sc
        judge(ctx, sc, "tlc-%d-%d-%d" % (K, ch, tf), stats)
    ctx.log("R done: %d behaviours replayed" % n_beh)
    # ---------------- T: random scenarios incl. 1440-minute prefixes (daily equity sample)
    n_rand = ctx.pick(200, 6000)
    rs = [W.rand_whole(rng) for _ in range(n_rand)] + [W.rand_whole(rng, pad=True) for _ in range(ctx.pick(6, 60))]
    for off in range(0, len(rs), 1500):
        judge(ctx, rs[off:off + 1500], "random-%d" % off, stats)
    # ---------------- two symbols on one wallet: pairs of TLC-generated behaviours and of random scenarios
    two = pair_up(tlc_scens, rng, ctx.pick(120, 1500)) + pair_up([sc for sc in rs if len(sc['hist']) < 40], rng, ctx.pick(60, 1500))
    judge2(ctx, two, "pairs", stats)
    ctx.log("two-symbol phase: %d scenarios" % stats['two_symbol_scenarios'])
    ctx.evaluations = stats['scenarios'] + stats['two_symbol_scenarios']
    ctx.coverage.update({
        "traces_validated_against_impl": stats['scenarios'] + stats['two_symbol_scenarios'], "behaviours_generated_by_tlc_and_replayed": n_beh,
        "real_backtests_run": 2 * (stats['scenarios'] + stats['two_symbol_scenarios']), "projections_compared": stats['minutes'], "fills_of_the_normal_side": stats['fills'],
        "trace_states_checked_by_tlc": stats['tlc_states'], "runs_by_final_status": dict(stats['status']),
        "scenarios_with_hook": dict(stats['hook']), "scenarios_with_closed_trades": stats['with_trades'],
        "scenarios_with_daily_equity_sample": stats['with_daily_sample'], "scenarios_with_liquidate": stats['with_liquidate'],
        "scenarios_with_stop_loss_edit": stats['with_edit'], "samples": stats['samples'],
        "two_symbol_scenarios": stats['two_symbol_scenarios'], "two_symbol_fills": stats['two_symbol_fills'],
        "two_symbol_runs_by_final_status": dict(stats['two_symbol_status']),
        "two_symbol_scenarios_with_both_positions_open": stats['two_symbol_both_positions_open'],
        "rule": "behaviours from tlc -simulate over six constant sets (lattice 4-6, chunks 1/3/5, trading 1m/3m/5m/15m) plus random "
                "scenarios; every one is run on both real simulators; non-trivial = >= 2 fills and a completed run; distinct by "
                "generator x index",
    })


def replay(ctx, rp):
    R.warm_parent()
    LIQFIX[0] = W.detect_liqfix()
    if "scenario2" in rp["payload"]:
        stats = dict(tlc_states=0, two_symbol_scenarios=0, two_symbol_fills=0, two_symbol_status=collections.Counter(), minutes=0,
                     two_symbol_both_positions_open=0)
        judge2(ctx, [rp["payload"]["scenario2"]], "replay", stats)
        print("replay (two symbols): %s, violations %d" % (dict(stats['two_symbol_status']), len(ctx.violations)))
        return
    sc = rp["payload"]["scenario"]
    stats = dict(scenarios=0, fills=0, minutes=0, tlc_states=0, status=collections.Counter(), hook=collections.Counter(),
                 with_trades=0, with_daily_sample=0, with_liquidate=0, with_edit=0, samples=[])
    judge(ctx, [sc], "replay", stats)
    print("replay: %s, violations %d" % (dict(stats['status']), len(ctx.violations)))
