"""C14 - sequential and single-value indicator results agree.
M: IndicatorStream.tla (one entry per candle: LenIsFed; the extrema detector's single flag is its newest confirmed
   entry: SingleIsConfirmed) checked by TLC on a tiny instance, plus the quirk that must violate LenIsFed.
T: for every public indicator with a `sequential` parameter and every field: the sequential series on the whole
   input, the sequential series on the trailing 240-candle window and the non-sequential result are recorded for
   input lengths below / at / above 240; TLC (TraceSeqSingle.tla) decides length alignment and single = the entry
   the call must return."""
import contextlib, io, json, os, random
from .. import tlc
from ..core import Machinery
from ..drivers import indicators as D
from . import c13

META = dict(
    category="exploration",
    technique="TLA+ transducer model of a sequential indicator (IndicatorStream.tla: one entry per candle, single value = "
              "entry `lag` before the end of the series over the trailing warm-up window) model-checked by TLC on a tiny "
              "instance; recorded sequential / windowed / non-sequential results of every public indicator are validated by "
              "TLC against those relations (TraceSeqSingle.tla)",
    text="TLC judges recorded relations only: for every public indicator that accepts sequential (introspected; every "
         "namedtuple field; default and perturbed parameters; every source type) and input lengths below, at and above the "
         "240-candle warm-up window, the sequential result has exactly one entry per candle, the non-sequential result is a "
         "scalar equal (one logging unit = 1e-6 of the series' magnitude; NaN/inf/None as tokens, strings by equality) to "
         "the last entry of the sequential series on the same input when it has at most 240 candles, and to the last entry "
         "of the sequential series computed on the trailing 240 candles otherwise. minmax's is_min/is_max are compared with "
         "the entry order+1 from the end, as documented. Exploration, no model of the numerics.",
    note="Trusted: TLC, the integer logging, the generic caller. 'Last entry = non-sequential result on the same input' is "
         "read together with the slicing rule: for inputs longer than 240 candles the reference is the sequential series of "
         "the trailing window (otherwise the two clauses of the statement contradict each other for every recursive or "
         "cumulative indicator). Six public functions have no `sequential` parameter (listed in the evidence).",
    design_ref="4/C14")

W = D.WARMUP
LENGTHS_Q = [200, W, W + 1, 300]
LENGTHS_T = [150, 200, W - 1, W, W + 1, W + 2, 300, 480]
LONG_CASES = [("random", W + 1, 11), ("trend", 400, 12), ("trend", 1000, 13)]
LONG_CASES_T = [("random", 1000, 14), ("spike", 700, 15), ("real", 1000, 16)]
KINDS_Q = ["random", "spike"]
KINDS_T = ["random", "spike", "trend", "flat", "real", "alternating"]


def job(item):
    entry, vs, cases = item
    traces, stats = [], {"calls": 0, "skipped": 0, "exc": {}, "single_raised": [], "not_series": set()}
    with contextlib.redirect_stdout(io.StringIO()):
        for case in cases:
            kind, n, seed = case[:3]
            which = case[3] if len(case) > 3 else None          # indices of the parameter sets this series gets
            sp = (kind, n, seed)
            c = D.build_series(sp)
            c2 = D.build_series((kind, n, seed + 1000))
            for j, kw in enumerate(vs):
                if which is None or j in which:
                    traces += record(entry, kw, sp, c, c2, stats)
    stats["not_series"] = sorted(stats["not_series"])
    return entry["name"], traces, stats


def record(entry, kw, sp, c, c2, stats, only_field=None):
    n = len(c)
    if n < D.min_len(entry, kw):
        return []
    ps = D.pscale_of(c)

    def attempt(cc, cc2, seq):
        stats["calls"] += 1
        try:
            return D.call(entry, cc, cc2, kw, seq)
        except Exception as ex:
            stats["exc"][D.exc_name(ex)] = stats["exc"].get(D.exc_name(ex), 0) + 1
            return ex
    rs = attempt(c, c2, True)
    if isinstance(rs, Exception):
        stats["skipped"] += 1
        return []
    rw = None
    if n > W:
        rw = attempt(c[-W:], c2[-W:], True)
        if isinstance(rw, Exception):
            stats["skipped"] += 1
            return []
    r1 = attempt(c, c2, False)
    if isinstance(r1, Exception):
        stats["single_raised"].append("%s(%s) n=%d: %s" % (entry["name"], c13.params_key(kw), n, D.exc_name(r1)))
        return []
    seqf = dict(D.fields_of(rs))
    winf = dict(D.fields_of(rw)) if rw is not None else {}
    sinf = dict(D.fields_of(r1))
    out = []
    for f, sv in seqf.items():
        if only_field and f != only_field:
            continue
        s = D.as_list(sv)
        if s is None:
            stats["not_series"].add(f)
            continue
        w = D.as_list(winf[f]) if f in winf else None
        if rw is not None and w is None:
            stats["not_series"].add(f)
            continue
        x = sinf.get(f)
        scalar = f in sinf and D.is_scalar(x)
        x = D.to_scalar(x) if scalar else None
        allv = s + (w or []) + ([x] if scalar else [])
        kind = D.kind_of(allv)
        unit = D.scale_of(s + (w or []), ps) * 1e-6
        ev = [{"k": "seq", "n": n, "out": D.enc_series(s, kind, unit)}]
        if w is not None:
            ev.append({"k": "win", "n": W, "out": D.enc_series(w, kind, unit)})
        ev.append({"k": "single", "scalar": bool(scalar), "v": D.enc_series([x], kind, unit)[0]})
        lag = 0
        if entry["name"] == "minmax" and f in ("is_min", "is_max"):
            lag = int(kw.get("order", entry["params"].get("order", 0)))
        finite = sum(1 for v in ev[0]["out"] if (isinstance(v, int) and abs(v) <= D.CLAMP) or isinstance(v, str))
        out.append({"hdr": {"ind": entry["name"], "field": f, "kind": kind, "lag": lag, "n": n, "window": W,
                            "params": c13.params_key(kw), "series": list(sp), "finite": finite},
                    "ev": ev, "kw": kw})
    return out


# ------------------------------------------------------------------------------------------------ short inputs
def short_job(item):
    """guarded short-input mode: one indicator in its own forked child (NUMBA_BOUNDSCHECK=1), inputs SHORTER than its
    window parameters.  Only the shape of the sequential result is recorded (judged: one entry per candle); an exception
    on a too-short input is 'skipped'.  Results are flushed to a file after every call, so that a child dying in a
    memory-unsafe kernel keeps what it had recorded."""
    entry, vsets, path = item
    rec = {"traces": {}, "skipped": 0, "calls": 0, "not_series": 0}

    def flush():
        with open(path + ".tmp", "w") as f:
            json.dump(rec, f)
        os.replace(path + ".tmp", path)
    c_all = D.build_series(("random", 720, 21))
    c2_all = D.build_series(("random", 720, 1021))
    with contextlib.redirect_stdout(io.StringIO()):
        for kw, lengths in vsets:
            for n in lengths:                    # descending: the riskiest (shortest) inputs come last
                rec["calls"] += 1
                try:
                    r = D.call(entry, c_all[:n], c2_all[:n], kw, True)
                except Exception:
                    rec["skipped"] += 1
                    flush()
                    continue
                # inputs longer than the warm-up window: the sequential series on the trailing window (the windows of this
                # parameter set may be longer than that window - everything is warm-up then)
                win = None
                if n > W:
                    try:
                        rec["calls"] += 1
                        win = dict(D.fields_of(D.call(entry, c_all[n - W:n], c2_all[n - W:n], kw, True)))
                    except Exception:
                        win = "raised"
                # the non-sequential result on the same input, when the call accepts it
                try:
                    rec["calls"] += 1
                    single = dict(D.fields_of(D.call(entry, c_all[:n], c2_all[:n], kw, False))) if win != "raised" else None
                except Exception:
                    single = None
                for f, v in D.fields_of(r):
                    s = D.as_list(v)
                    if s is None:
                        rec["not_series"] += 1
                        continue
                    x = single.get(f) if single is not None else None
                    has_single = single is not None and f in single
                    scalar = has_single and D.is_scalar(x)
                    x = D.to_scalar(x) if scalar else None
                    kind = D.kind_of(s + ([x] if scalar else []))
                    key = "%s|%s" % (f, c13.params_key(kw))
                    t = rec["traces"].setdefault(key, {"field": f, "kw": kw, "kind": kind, "ev": []})
                    if kind != t["kind"]:
                        continue
                    unit = D.scale_of(s + ([x] if scalar and kind == "num" else []), 100.0) * 1e-6
                    t["ev"].append({"k": "seq", "n": n, "out": D.enc_series(s, kind, unit)})
                    if isinstance(win, dict):
                        w = D.as_list(win.get(f))
                        if w is None or D.kind_of(w) != kind and kind == "num" and D.kind_of(w) == "str":
                            continue
                        t["ev"].append({"k": "win", "n": W, "out": D.enc_series(w, kind, unit)})
                    if has_single:
                        t["ev"].append({"k": "single", "scalar": bool(scalar), "v": D.enc_series([x], kind, unit)[0]})
                flush()
    return entry["name"]


def short_plan(ctx, cat, scratch):
    items = []
    for e in cat:
        if not e["sequential"]:
            continue
        names = D.period_like(e)
        if not names:
            continue
        vsets = []
        pmax = min(max(e["params"][n] for n in names), ctx.pick(60, 120))
        vsets.append(({}, list(range(pmax + 1, 0, -1))))
        # long windows against the 240-row warm-up window (and a few shorter inputs)
        # legal but extreme: windows ABOVE the 240-candle warm-up window on inputs longer than it (clause 3: the non-
        # sequential result is the last entry of the sequential series over the trailing 240 candles - typically NaN)
        for big in (241, 300, 365):
            vsets.append(({n: big for n in names}, [700, 400, 300, 241] + ([240, 100, 20] if big == 300 else [])))
        slow = D.slow_variant(e)
        if slow is not None and not ctx.quick:
            vsets.append((slow, list(range(min(max(slow.values()) + 1, 160), 0, -3))))
        items.append((e, vsets, os.path.join(scratch, "short-%s.json" % e["name"])))
    return items


def run_short(ctx, cat):
    """returns (traces for TraceSeqSingle, statistics)"""
    d = ctx.sub("short")
    items = short_plan(ctx, cat, d)
    res = D.pmap(short_job, items, timeout=300)
    traces, st = [], {"calls": 0, "skipped_exception": 0, "children_died": [], "non_series_results": 0}
    for it, r in zip(items, res):
        e, vsets, path = it
        if not (isinstance(r, str)):
            st["children_died"].append("%s: %s" % (e["name"], r[1][:80] if isinstance(r, tuple) else r))
        if not os.path.exists(path):
            continue
        with open(path) as f:
            rec = json.load(f)
        st["calls"] += rec["calls"]
        st["skipped_exception"] += rec["skipped"]
        st["non_series_results"] += rec["not_series"]
        for key, t in rec["traces"].items():
            if not t["ev"]:
                continue
            lag = 0
            if e["name"] == "minmax" and t["field"] in ("is_min", "is_max"):
                lag = int(t["kw"].get("order", e["params"].get("order", 0)))
            traces.append({"hdr": {"ind": e["name"], "field": t["field"], "kind": t["kind"], "lag": lag, "n": t["ev"][0]["n"],
                                   "window": W, "params": c13.params_key(t["kw"]) + ",short-input",
                                   "series": ["random", 720, 21, "lengths %d..%d" % (min(x["n"] for x in t["ev"] if x["k"] == "seq"), t["ev"][0]["n"])],
                                   "finite": 0},
                           "ev": t["ev"], "kw": t["kw"], "short": True})
    return traces, st


def plan(ctx, cat):
    rng = random.Random(ctx.seed + 14)
    kinds = ctx.pick(KINDS_Q, KINDS_T)
    lengths = ctx.pick(LENGTHS_Q, LENGTHS_T)
    nvar = ctx.pick(3, 9)
    cases = [(k, n, 1 + i) for i, k in enumerate(kinds) for n in lengths]
    items = []
    for e in cat:
        if not e["sequential"]:
            continue
        vs = D.variants(e, rng, nvar, sweep=not ctx.quick)
        nrand = len(vs)
        # every moving-average selector parameter swept over window and recursive types, on every length (all clauses)
        seen = {tuple(sorted(v.items())) for v in vs}
        for m in D.matype_variants(e):
            if tuple(sorted(m.items())) not in seen:
                seen.add(tuple(sorted(m.items())))
                vs.append(m)
        nrand = len(vs)
        cs = [c + (list(range(nrand)),) for c in cases]
        # long windows on long inputs: the history before the trailing 240 candles still weighs on the value, so a result
        # computed on the wrong slice of the input differs visibly (clause 3: single(long) = Last(seq(trailing window)))
        extra = [0] + list(range(nrand - len(D.matype_variants(e)), nrand)) if D.matype_like(e) else [0]
        slow = D.slow_variant(e)
        if slow is not None:
            vs.append(slow)
            extra.append(len(vs) - 1)
        if e["name"] == "ma":
            # the generic selector: every moving-average type, with a short and a long window
            for mt in D.ENUM_INT["matype"]:
                for per in (14, 120):
                    vs.append({"matype": mt, "period": per, "source_type": "close" if mt % 2 else "hl2"})
                    extra.append(len(vs) - 1)
        for c in LONG_CASES if ctx.quick else LONG_CASES + LONG_CASES_T:
            cs.append(c + (extra,))
        items.append((e, vs, cs))
    return items


def sig_of(h, verdict):
    p = verdict.split(":")
    clause = p[0] if p[0] != "single" else ":".join(p[:2])
    return "%s.%s:%s" % (h["ind"], h["field"], clause)


def judge(ctx, traces, parts):
    for i, t in enumerate(traces):
        t["id"] = i + 1
    slim = [{"id": t["id"], "hdr": {k: t["hdr"][k] for k in ("kind", "lag", "n", "window")}, "ev": t["ev"]} for t in traces]
    verdicts, results = tlc.validate_traces("TraceSeqSingle", "TraceSeqSingle.cfg", slim, ctx.scratch, parts=parts, timeout=2400,
                                             heap=ctx.pick("1g", "2g"), max_procs=ctx.pick(16, 12))
    bad = 0
    for t in traces:
        l, v = verdicts[t["id"]]
        if v.startswith("trace:"):
            raise Machinery("malformed trace %s.%s: %s" % (t["hdr"]["ind"], t["hdr"]["field"], v))
        if v != "ok":
            bad += 1
            h = t["hdr"]
            ctx.violation(sig_of(h, v), "%s(%s).%s on %d candles of %s: event %s rejected: %s" % (
                h["ind"], h["params"], h["field"], h["n"], h["series"], t["ev"][l - 1]["k"], v),
                {"ind": h["ind"], "kw": t["kw"], "series": h["series"], "field": h["field"],
                 "short_lengths": [e["n"] for e in t["ev"] if e["k"] == "seq"] if t.get("short") else None})
    return verdicts, results, bad


def run(ctx):
    ctx.level = META["category"]
    c13.model_runs(ctx, [("plain kernel", 0, "none", ["LenIsFed", "AppendOnly", "SingleIsConfirmed"], None),
                         ("extrema detector, order 2", 2, "none", ["LenIsFed", "StableButTail", "SingleIsConfirmed"], None),
                         ("quirk: one entry missing (squeeze_momentum-like)", 0, "short", ["LenIsFed"], "LenIsFed")])
    cat = D.catalog()
    outside = [e["name"] for e in cat if not e["sequential"]]
    items = plan(ctx, cat)
    ctx.log("evaluating %d indicators" % len(items))
    res = D.pmap(job, items)
    crashed = []
    retry = [(it[0], [kw], [c[:3] + (([0] if j in c[3] else []),) for c in it[2]])
             for it, r in zip(items, res) if r[0] == "CRASH" for j, kw in enumerate(it[1])]
    res = [r for r in res if r[0] != "CRASH"]
    if retry:
        for it, r in zip(retry, D.pmap(job, retry)):
            if r[0] == "CRASH":
                crashed.append("%s(%s): %s" % (it[0]["name"], c13.params_key(it[1][0]), r[1]))
            else:
                res.append(r)
    traces, calls, skipped, excs, single_raised, notseries, per_ind = [], 0, 0, {}, [], {}, {}
    for r in res:
        if r[0] == "EXC":
            raise Machinery("worker failed: %s" % r[1])
        name, tr, st = r
        traces += tr
        calls += st["calls"]
        skipped += st["skipped"]
        single_raised += st["single_raised"]
        per_ind[name] = per_ind.get(name, 0) + len(tr)
        if st["not_series"]:
            notseries[name] = st["not_series"]
        for k, v in st["exc"].items():
            excs[k] = excs.get(k, 0) + v
    silent = sorted(n for n, k in per_ind.items() if k == 0)
    if silent:
        raise Machinery("no trace recorded for %s (the generic caller no longer fits)" % silent)
    short_traces, short_stats = run_short(ctx, cat)
    traces += short_traces
    ctx.log("%d traces from %d calls (%d skipped); short-input mode: %d traces from %d calls (%d raised, %d children died)" % (
        len(traces), calls, skipped, len(short_traces), short_stats["calls"], short_stats["skipped_exception"],
        len(short_stats["children_died"])))
    verdicts, results, bad = judge(ctx, traces, parts=ctx.pick(16, 48))
    for t in traces:
        h = t["hdr"]
        if h["finite"] >= 30:
            ctx.nontrivial.add((h["ind"], h["field"], h["params"], tuple(h["series"])))
    ctx.evaluations = len(traces)
    samples = []
    for t in traces[:: max(1, len(traces) // 3)][:3]:
        samples.append({"indicator": t["hdr"]["ind"], "field": t["hdr"]["field"], "params": t["hdr"]["params"],
                        "series": t["hdr"]["series"],
                        "events": [dict((k, (v[-3:] if k == "out" else v)) for k, v in e.items()) for e in t["ev"]]})
    ctx.coverage.update({
        "traces_validated_against_impl": len(traces), "indicator_calls": calls, "cases_skipped_exception": skipped,
        "exception_classes": excs, "single_call_raised_where_sequential_did_not": single_raised[:50],
        "indicators_covered": len(per_ind), "interpreter_crashes": crashed, "short_input_mode": short_stats,
        "fields_covered": len({(t["hdr"]["ind"], t["hdr"]["field"]) for t in traces}),
        "outside_property_no_sequential_parameter": outside, "non_series_fields": notseries,
        "input_lengths": ctx.pick(LENGTHS_Q, LENGTHS_T) + sorted({c[1] for c in LONG_CASES}),
        "trace_events_checked_by_tlc": sum(r.generated for r in results), "rejected_traces": bad, "samples": samples,
        "rule": "one case = (indicator, field, parameter set, candle series incl. its length): events seq / win (length > 240) "
                "/ single. Non-trivial = the sequential series has >= 30 finite entries; distinct by (indicator, field, "
                "parameters, series kind and length).",
    })
    ctx.assumptions += [
        "for inputs longer than 240 candles the non-sequential result is compared with the sequential series of the trailing "
        "240 candles (the slicing rule), not with the last entry of the sequential series on the whole input",
        "tolerance: one logging unit = 1e-6 x max(|finite values of the series|, 1e-6 x max close)",
        "short-input mode (inputs of 1..period+1 candles, windows of 300 on 240/100/20 candles): 'one entry per candle' and "
        "'last entry = non-sequential result on the same input' are judged; an exception or a dying child on a too-short input is recorded as skipped, a scalar result is not judged",
        "a case whose sequential call raises is skipped; a non-sequential call that raises where the sequential one did not "
        "is listed in the evidence, not judged"]


def replay(ctx, rp):
    ctx.level = META["category"]
    p = rp["payload"]
    cat = {e["name"]: e for e in D.catalog()}
    e = cat[p["ind"]]
    if p.get("short_lengths"):
        path = os.path.join(ctx.sub("short"), "replay.json")
        D.pmap(short_job, [(e, [(p["kw"], p["short_lengths"])], path)], timeout=300)
        rec = json.load(open(path)) if os.path.exists(path) else {"traces": {}}
        traces = [{"hdr": {"ind": e["name"], "field": t["field"], "kind": t["kind"], "lag": 0, "n": t["ev"][0]["n"], "window": W,
                           "params": c13.params_key(t["kw"]) + ",short-input", "series": p["series"], "finite": 0},
                   "ev": t["ev"], "kw": t["kw"], "short": True}
                  for t in rec["traces"].values() if t["field"] == p["field"] and t["ev"]]
        if not traces:
            raise Machinery("replay produced no trace")
        verdicts, results, bad = judge(ctx, traces, parts=1)
        for t in traces:
            print("replay verdict:", t["hdr"]["ind"], t["hdr"]["field"], verdicts[t["id"]])
        return
    sp = tuple(p["series"])
    c = D.build_series(sp)
    c2 = D.build_series((sp[0], sp[1], sp[2] + 1000))
    stats = {"calls": 0, "skipped": 0, "exc": {}, "single_raised": [], "not_series": set()}
    with contextlib.redirect_stdout(io.StringIO()):
        traces = record(e, p["kw"], sp, c, c2, stats, only_field=p["field"])
    if not traces:
        raise Machinery("replay produced no trace")
    verdicts, results, bad = judge(ctx, traces, parts=1)
    for t in traces:
        print("replay verdict:", t["hdr"]["ind"], t["hdr"]["field"], verdicts[t["id"]])
