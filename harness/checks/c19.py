"""C19 - optimizer DNA decodes into in-range, typed, monotone hyper-parameters; hp injection precedence.
M: Dna.tla walks the decoding definition (DnaDef.tla: convert_number + round-half-even in exact rationals) over all
   80 genes x all declarations on the half-unit lattice -5..10 and checks typed / in-range / end points / monotone;
   HpInjection.tla models _prepare_routes + _init_objects and checks the precedence chain.
R: the real helpers.dna_to_hp is called on the whole grid (one trace per declaration, one event per letter of the
   optimizer's real charset), on random decimal declarations and on random longer DNAs; TLC (TraceDna.tla) judges the
   recorded outputs clause by clause (exact rank comparisons) and says whether they agree with the definition.
   Every scenario of HpInjection.tla is run through a real research.backtest whose strategy reports self.hp at its
   first and last step; TLC (TraceHp.tla) judges the observation against explicit > dna() > defaults."""
import json, random, inspect
from fractions import Fraction
from .. import tlc, encode
from ..core import Machinery

META = dict(
    category="model_checking",
    technique="TLA+ definition of the gene->value decoding in exact rationals (DnaDef/Dna.tla) model-checked over all 80 "
              "genes x all half-unit declarations; real dna_to_hp outputs on the same grid, on random decimal declarations "
              "and on longer DNAs judged by TLC (TraceDna.tla, exact rank comparisons); state-machine model of "
              "_prepare_routes/_init_objects (HpInjection.tla) whose every scenario is executed through a real "
              "research.backtest and validated by TLC (TraceHp.tla)",
    text="TLC checks on the decoding definition, for every gene and every (min, max, type) declaration with bounds in "
         "halves between -5 and 10, that the value is typed, inside [min, max], monotone in the gene and hits min / max at "
         "the first / last letter; the real decoder is run on that whole grid (every letter of the optimizer's charset), "
         "on random declarations with up to three decimals and on longer DNAs (position independence), and TLC accepts "
         "or rejects each recorded decode. The precedence explicit > dna() > declared defaults is model-checked on a "
         "model of _prepare_routes/_init_objects and each of its scenarios is run through research.backtest with a "
         "strategy that reports self.hp. Bounded to the stated lattices; single route.",
    note="Trusted: TLC, the encoder (exact ranks of the Python numbers, repr strings), the 30-line drivers. Agreement of "
         "the real decoder with the rational definition is reported (model_agreement) but only the property clauses "
         "are verdicts: another typed, in-range, monotone, end-point-exact decoder would pass.",
    design_ref="4/C19")

GMIN, GMAX = 40, 119


def dna_cfg(cls, rule, neglo=10, hi=20, unit=2):
    return ("SPECIFICATION Spec\nCONSTANTS\n NegLo = %d\n Hi = %d\n Unit = %d\n Class = \"%s\"\n Rule = \"%s\"\n"
            "INVARIANT TypedOK\nINVARIANT InRange\nINVARIANT FirstIsMin\nINVARIANT LastIsMax\nINVARIANT TiesOnlyAtEnds\n"
            "PROPERTY Monotone\nCHECK_DEADLOCK FALSE\n" % (neglo, hi, unit, cls, rule))


def hp_cfg(genes, export):
    return ("SPECIFICATION Spec\nCONSTANTS\n Genes = {%s}\n Export = %s\nINVARIANT Precedence\nINVARIANT ExplicitWins\n"
            "INVARIANT DnaBeatsDefaults\nINVARIANT ExportEdge\nCHECK_DEADLOCK FALSE\n"
            % (", ".join(str(g) for g in genes), "TRUE" if export else "FALSE"))


# ------------------------------------------------------------------ driving the real decoder
def real_charset():
    """the alphabet the optimizer really uses (default argument of Optimizer.__init__)"""
    try:
        from jesse.modes.optimize_mode.Optimize import Optimizer
        cs = inspect.signature(Optimizer.__init__).parameters['charset'].default
    except Exception as ex:
        raise Machinery("cannot read the optimizer's charset: %r" % (ex,))
    if not isinstance(cs, str) or len(cs) < 2:
        raise Machinery("unexpected charset %r" % (cs,))
    return cs


def pytype(typ):
    return int if typ == "int" else float


def bound(b, unit):
    """the Python number a user would write for b/unit"""
    if b % unit == 0:
        return b // unit
    return b / unit


def decode_one(typ, mn, mx, ch):
    import jesse.helpers as jh
    return jh.dna_to_hp([{'name': 'x', 'type': pytype(typ), 'min': mn, 'max': mx, 'default': mn}], ch)['x']


def decl_trace(tid, typ, mn, mx, unit, charset, floats_as_float=False):
    """one declaration, every letter of the charset"""
    pmn, pmx = bound(mn, unit), bound(mx, unit)
    if floats_as_float:
        pmn, pmx = float(pmn), float(pmx)
    raw = []
    for ch in charset:
        try:
            raw.append(("none", decode_one(typ, pmn, pmx, ch)))
        except Exception as ex:
            raw.append((type(ex).__name__, None))
    nums = [pmn, pmx] + [v for e, v in raw if e == "none" and isinstance(v, (int, float)) and v == v]
    rk = dict(zip(nums, encode.ranks(nums)))
    den = (GMAX - GMIN) * unit
    ev = []
    for ch, (exc, v) in zip(charset, raw):
        ok = exc == "none" and isinstance(v, (int, float)) and v == v
        isint = ok and type(v) is int
        ev.append({"g": ord(ch), "exc": exc if exc != "none" or ok else "not-a-number",
                   "isint": isint, "isfloat": ok and type(v) is float,
                   "vi": int(v) if isint and abs(v) < 10 ** 6 else 0,
                   "rk": rk[v] if ok else 0,
                   "sc": int(round(Fraction(v) * den * 1000)) if ok and abs(v) < 25 else 0})
    hdr = {"kind": "decl", "typ": typ, "unit": unit, "mn": mn, "mx": mx, "rmin": rk[pmn], "rmax": rk[pmx]}
    return {"id": tid, "hdr": hdr, "ev": ev}, [v for _, v in raw]


def free_decl_trace(tid, fmin, fmax, charset, family):
    """a float declaration with arbitrary (off-lattice) bounds: judged by exact ranks only (no model agreement)"""
    raw = []
    for ch in charset:
        try:
            raw.append(("none", decode_one("float", fmin, fmax, ch)))
        except Exception as ex:
            raw.append((type(ex).__name__, None))
    nums = [fmin, fmax] + [v for e, v in raw if e == "none" and isinstance(v, (int, float)) and v == v]
    rk = dict(zip(nums, encode.ranks(nums)))
    ev = []
    for ch, (exc, v) in zip(charset, raw):
        ok = exc == "none" and isinstance(v, (int, float)) and v == v
        ev.append({"g": ord(ch), "exc": exc if exc != "none" or ok else "not-a-number", "isint": ok and type(v) is int,
                   "isfloat": ok and type(v) is float, "vi": 0, "rk": rk[v] if ok else 0, "sc": 0})
    hdr = {"kind": "decl", "typ": "float", "unit": 1, "mn": 0, "mx": 1, "rmin": rk[fmin], "rmax": rk[fmax], "free": family,
           "fmin": repr(fmin), "fmax": repr(fmax)}
    return {"id": tid, "hdr": hdr, "ev": ev}


def gen_free_bounds(rng):
    """tiny magnitudes, tiny widths next to multiples of 1e-10, huge ranges"""
    c = rng.random()
    if c < 0.35:
        def tiny():
            return rng.choice([1, -1]) * rng.randint(1, 9999) * 10.0 ** rng.randint(-16, -9) * rng.choice([1, 0.25, 0.75])
        a, b = tiny(), tiny()
        fam = "tiny-magnitude"
        if rng.random() < 0.3:
            a = rng.choice([0.0, a])
    elif c < 0.75:
        k = rng.choice([3 * 10 ** 9, 10 ** 9, 10 ** 10, rng.randint(1, 10 ** 11), rng.randint(1, 1000), 0])
        x = k / 10 ** 10
        a = x + rng.randint(-9, 9) * 1e-13 * rng.choice([1, 0.5])
        b = x + rng.randint(-9, 9) * 1e-13 * rng.choice([1, 0.5])
        fam = "tiny-width-near-a-grid-point"
    else:
        a = rng.choice([1e-8, -1e8, 0.0, 1e-8 * rng.randint(1, 99), -rng.random() * 1e8])
        b = rng.choice([1e8, 1e8 * rng.random(), 123456789.123, 1e-8])
        fam = "huge-range"
    a, b = float(a), float(b)
    if a > b:
        a, b = b, a
    return a, b, fam


def seq_trace(tid, decls, dna):
    """a longer DNA: every position against the one-letter decode under the same declaration"""
    import jesse.helpers as jh
    hp_decl = [{'name': 'p%d' % i, 'type': pytype(t), 'min': a, 'max': b, 'default': a} for i, (t, a, b) in enumerate(decls)]
    try:
        hp = jh.dna_to_hp(hp_decl, dna)
        exc = "none"
    except Exception as ex:
        hp, exc = {}, type(ex).__name__
    ev = []
    for i, (ch, (t, a, b)) in enumerate(zip(dna, decls)):
        e = {"g": ord(ch), "pos": i, "exc": exc, "s": "", "t": "", "s1": "", "t1": ""}
        if exc == "none":
            if 'p%d' % i not in hp:
                e["exc"] = "missing-name"
            else:
                v = hp['p%d' % i]
                try:
                    v1 = decode_one(t, a, b, ch)
                    e.update(s=repr(v), t=type(v).__name__, s1=repr(v1), t1=type(v1).__name__)
                except Exception as ex:
                    e["exc"] = "single:" + type(ex).__name__
        ev.append(e)
    return {"id": tid, "hdr": {"kind": "seq", "typ": "", "unit": 1, "mn": 0, "mx": 0, "rmin": 0, "rmax": 0}, "ev": ev}


def bound_class(h):
    if h["kind"] == "seq":
        return "seq"
    if h.get("free"):
        return "float:%s" % h["free"]
    integral = h["mn"] % h["unit"] == 0 and h["mx"] % h["unit"] == 0
    if h["typ"] == "int":
        return "int:integral-bounds" if integral else "int:fractional-bounds"
    return "float:half-unit-bounds" if h["unit"] == 2 else ("float:integral-bounds" if integral else "float:decimal-bounds")


# ------------------------------------------------------------------ hp injection through research.backtest
def hp_value(v):
    f = Fraction(v)
    if abs(f.numerator) > encode.LIM or f.denominator > encode.LIM:
        raise ValueError("unencodable")
    return f.numerator, f.denominator


# (simulator, route set): trading timeframe, data-route timeframe or None, candle step of the fast simulator
RUN_CONFIGS = [("step", "1m", None, 1), ("fast", "1m", None, 1), ("step", "5m", None, 5), ("fast", "5m", None, 5),
               ("step", "3m", "5m", 1), ("fast", "3m", "5m", 1), ("step", "15m", "5m", 5), ("fast", "15m", "5m", 5)]


def which_path(sc):
    if sc["hasExplicit"]:
        return "explicit+dna" if sc["dna"] and sc["decls"] else "explicit"
    if sc["dna"] and sc["decls"]:
        return "dna"
    return "defaults" if sc["decls"] else "nothing"


def run_scenario(sc, cfg=RUN_CONFIGS[0], two_routes=False):
    """one real research.backtest; returns the events (self.hp at the first and at the last step)"""
    from jesse.strategies import Strategy
    from .. import session
    seen = []

    def obs(at, hp):
        e = {"at": at, "exc": "none", "set": hp is not None, "vals": [], "intsok": True}
        try:
            if hp is not None:
                for name in sorted(hp):
                    n, d = hp_value(hp[name])
                    e["vals"].append([str(name), n, d])
                for d_ in sc["decls"]:
                    if d_["typ"] == "int" and d_["name"] in hp and type(hp[d_["name"]]) is not int:
                        e["intsok"] = False
        except Exception as ex:
            e["exc"] = "unreadable-hp:" + type(ex).__name__
            e["vals"] = []
        seen.append(e)

    class S(Strategy):
        _first = True

        def should_long(self):
            return False

        def go_long(self):
            pass

        def before(self):
            if self._first:
                self._first = False
                obs("first" if self.symbol == 'BTC-USDT' else "first-of-route-2", self.hp)

        def terminate(self):
            obs("last" if self.symbol == 'BTC-USDT' else "last-of-route-2", self.hp)

    if sc["decls"]:
        decls = [{'name': d["name"], 'type': pytype(d["typ"]), 'min': bound(d["mn"], 2), 'max': bound(d["mx"], 2),
                  'default': (float(bound(d["dflt"], 2)) if d["typ"] == "float" else bound(d["dflt"], 2))} for d in sc["decls"]]
        S.hyperparameters = lambda self: [dict(d) for d in decls]
    if sc["dna"]:
        s = "".join(chr(g) for g in sc["dna"])
        fallback = "".join(chr(GMAX if g == GMIN else GMIN) for g in sc["dna"])
        tf_ = cfg[1]
        # dna() is an ordinary method: it may look at the route the strategy runs on.  It returns the scenario's DNA on
        # its route (every route of a two-route run) and another valid DNA while the strategy does not know its route yet
        S.dna = lambda self: s if (self.symbol in ('BTC-USDT', 'ETH-USDT') and self.timeframe == tf_
                                   and self.exchange is not None and self.name is not None) else fallback
    explicit = None
    if sc["hasExplicit"]:
        explicit = {}
        for name, n, d in sc["explicit"]:
            explicit[name] = n if d == 1 else n / d
    sim, tf, dtf, _step = cfg
    candles = {'BTC-USDT': session.lattice_walk(60, 5)}          # 60 minutes: a multiple of every timeframe used
    if two_routes:
        candles['ETH-USDT'] = session.lattice_walk(60, 6, start=150)
    out = session.run_backtest(None, session.futures_config(), candles, strategy_cls=S, hyperparameters=explicit,
                               routes=[{'symbol': sym, 'timeframe': tf} for sym in candles],
                               data_routes=([{'symbol': 'BTC-USDT', 'timeframe': dtf}] if dtf else None), fast=(sim == "fast"))
    if out["exc"] is not None and not seen:
        seen.append({"at": "first", "exc": out["exc"].split(":")[0], "set": False, "vals": [], "intsok": True})
    return seen


def hp_sig(sc, verdict):
    return "hp:" + verdict


# ------------------------------------------------------------------ run
def run(ctx):
    rng = random.Random(ctx.seed)
    ctx.assumptions += ["declarations with min <= max; an int declaration is judged for range only when an integer lies in [min, max]",
                        "for an int parameter the end-point clause applies to integral bounds only (a fractional bound cannot be hit by an integer)",
                        "single route (the property's quantifier); bounds between -5 and 10"]
    samples = []
    # ---------------- M: the definition on the whole lattice
    r = tlc.run("Dna", cfg_text=dna_cfg("integral", "round"), workers=4, coverage=True, timeout=600)
    ctx.add_tlc(r, "Dna integral bounds (float + int), rule round: typed/in-range/end points/monotone")
    if r.violation:
        raise Machinery("Dna.tla: the definition violates %s on integral declarations\n%s" % (r.violation["name"], r.violation["trace"][:2000]))
    r = tlc.run("Dna", cfg_text=dna_cfg("fractional", "round"), workers=4, timeout=600)
    model_cex = None
    if r.violation:
        model_cex = {"invariant": r.violation["name"], "state": " ".join(r.raw[r.raw.find("Error: Invariant"):][:400].split())}
        ctx.notes.append("model level: int declarations with a fractional bound violate %s under int(round(x)) - %s" % (
            r.violation["name"], model_cex["state"][:200]))
    else:
        ctx.add_tlc(r, "Dna fractional int bounds, rule round")
    r = tlc.run("Dna", cfg_text=dna_cfg("fractional", "round_clamp"), workers=4, coverage=True, timeout=600)
    ctx.add_tlc(r, "Dna fractional int bounds, rule round_clamp (repaired decoder)")
    if r.violation:
        raise Machinery("Dna.tla: the clamped definition violates %s\n%s" % (r.violation["name"], r.violation["trace"][:2000]))
    if not ctx.quick:
        r = tlc.run("Dna", cfg_text=dna_cfg("integral", "round", neglo=50, hi=100, unit=10), workers=8, timeout=1200)
        ctx.add_tlc(r, "Dna tenths -5..10, integral class")
        if r.violation:
            raise Machinery("Dna.tla (tenths): %s" % r.violation["name"])
    # ---------------- R: the real decoder, every letter of the real charset
    charset = real_charset()
    traces, seq_src = [], {}
    tid = 0
    decodes = 0
    for typ in ("int", "float"):
        for mn in range(-10, 21):
            for mx in range(mn, 21):
                tid += 1
                t, vals = decl_trace(tid, typ, mn, mx, 2, charset)
                traces.append(t)
                decodes += len(charset)
                for ch in charset:
                    ctx.nontrivial.add((ord(ch), typ, mn, mx, 2))
                if (typ, mn, mx) in (("int", -7, 15), ("float", 1, 5)):
                    samples.append({"kind": "R grid: declaration %s [%s, %s]" % (typ, bound(mn, 2), bound(mx, 2)),
                                    "letters": charset[:3] + ".." + charset[-2:],
                                    "values": [repr(v) for v in vals[:3]] + [".."] + [repr(v) for v in vals[-2:]]})
    n_grid = tid
    # bounds written as floats (0.0 instead of 0) for a sample of the grid
    for _ in range(ctx.pick(60, 400)):
        typ = rng.choice(["int", "float"])
        mn = rng.randint(-10, 20); mx = rng.randint(mn, 20)
        tid += 1
        t, _v = decl_trace(tid, typ, mn, mx, 2, charset, floats_as_float=True)
        traces.append(t)
        decodes += len(charset)
    # random decimal declarations (three decimals)
    for _ in range(ctx.pick(600, 8000)):
        typ = rng.choice(["int", "float"])
        d = rng.choice([1, 10, 100, 1000])
        mn = rng.randint(-5000 // d, 10000 // d) * d
        mx = rng.randint(mn // d, 10000 // d) * d
        if typ == "int" and rng.random() < 0.5:
            mn, mx = (mn // 1000) * 1000, (mx // 1000) * 1000
        tid += 1
        t, vals = decl_trace(tid, typ, mn, mx, 1000, charset)
        traces.append(t)
        decodes += len(charset)
        ctx.nontrivial.add(("decimal", typ, mn, mx))
    # float declarations off every lattice: tiny magnitudes, tiny widths next to grid points, huge ranges
    n_free = 0
    for _ in range(ctx.pick(1500, 15000)):
        a, b, fam = gen_free_bounds(rng)
        tid += 1
        traces.append(free_decl_trace(tid, a, b, charset, fam))
        decodes += len(charset)
        n_free += 1
        ctx.nontrivial.add(("free", repr(a), repr(b)))
    n_decl = tid
    # longer DNAs
    pool = [(t["hdr"]["typ"], bound(t["hdr"]["mn"], t["hdr"]["unit"]), bound(t["hdr"]["mx"], t["hdr"]["unit"])) for t in traces
            if not t["hdr"].get("free")]
    for _ in range(ctx.pick(300, 4000)):
        L = rng.randint(2, 8)
        decls = [rng.choice(pool) for _ in range(L)]
        dna = "".join(rng.choice(charset) for _ in range(L))
        tid += 1
        traces.append(seq_trace(tid, decls, dna))
        seq_src[tid] = {"decls": [list(d) for d in decls], "dna": dna}
        decodes += L
        ctx.nontrivial.add(("seq", dna, tuple(decls)))
    samples.append({"kind": "R seq: position independence", "dna": dna, "declarations": [list(map(str, d)) for d in decls],
                    "events": traces[-1]["ev"][:3]})
    verdicts, results = tlc.validate_traces("TraceDna", "TraceDna.cfg", traces, ctx.scratch, parts=12, timeout=900)
    byid = {t["id"]: t for t in traces}
    agree = {"round": 0, "round_clamp": 0, "neither": 0}
    bad = 0
    for i, v in sorted(verdicts.items()):
        l, fails, ok_round, ok_clamp = v
        t = byid[i]
        cls = bound_class(t["hdr"])
        if t["hdr"]["kind"] == "decl" and not fails and not t["hdr"].get("free"):
            if ok_round:
                agree["round"] += 1
            if ok_clamp:
                agree["round_clamp"] += 1
            if not ok_round and not ok_clamp:
                agree["neither"] += 1
        if fails:
            bad += 1
        for verdict in fails:
            h = t["hdr"]
            ctx.violation("%s:%s" % (cls, verdict),
                          "trace %d (%s) rejected, first at event %d (letter %r): %s (all clauses: %s); declaration %s" % (
                              i, h["kind"], l, chr(t["ev"][l - 1]["g"]), verdict, fails,
                              (("float", h["fmin"], h["fmax"]) if h.get("free") else (h["typ"], bound(h["mn"], h["unit"]), bound(h["mx"], h["unit"])))
                              if h["kind"] == "decl" else ""),
                          {"kind": h["kind"], "seq": seq_src.get(i), "hdr": h})
    if agree["neither"]:
        ctx.notes.append("%d declarations decode in range but not as the linear definition (neither int(round) nor its clamped "
                         "repair): the model-level results of Dna.tla do not describe this decoder" % agree["neither"])
    ctx.log("R: %d declaration traces + %d seq traces, %d rejected; model agreement %r" % (n_decl, tid - n_decl, bad, agree))
    # ---------------- HpInjection: M + export + real backtests
    genes = ctx.pick([40, 80, 119], [40, 79, 80, 81, 119])       # 80 = 'P' decodes to exactly 0 / 0.0 in the signed sets
    r = tlc.run("HpInjection", cfg_text=hp_cfg(genes, False), workers=1, coverage=True, timeout=300)
    ctx.add_tlc(r, "HpInjection precedence, genes %r" % (genes,))
    if r.violation:
        raise Machinery("HpInjection.tla violates %s\n%s" % (r.violation["name"], r.violation["trace"][:2000]))
    r2 = tlc.run("HpInjection", cfg_text=hp_cfg(genes, True), workers=1, timeout=300)
    scen = [json.loads(e[1]) for e in tlc.tagged(r2, "EDGE")]
    if not scen:
        raise Machinery("HpInjection export produced no scenarios")
    hp_traces = []
    combos = set()
    cells = {}
    counters = {}
    plan = []
    for s_ in scen:
        sc = s_["sc"]
        w = which_path(sc)
        if w in ("defaults", "nothing"):
            cfgs = RUN_CONFIGS                                   # few scenarios: every simulator / route set
        else:
            i = counters.get(w, 0)
            counters[w] = i + 1
            cfgs = [RUN_CONFIGS[i % len(RUN_CONFIGS)]]
        for cfg in cfgs:
            plan.append((s_, cfg, False))
        # explicit hyper-parameters with two routes: BOTH strategies must see exactly the explicit values (the values a
        # second route gets from dna() are outside the statement and not judged)
        if sc["hasExplicit"]:
            j = counters.get("two", 0)
            counters["two"] = j + 1
            if j % 3 == 0:
                plan.append((s_, [c for c in RUN_CONFIGS if c[2] is None][(j // 3) % 4], True))
    two_cells = {}
    for k, (s_, cfg, two) in enumerate(plan):
        sc = s_["sc"]
        ev = run_scenario(sc, cfg, two)
        if two:
            two_cells[cfg[0]] = two_cells.get(cfg[0], 0) + (1 if len(ev) >= 4 else 0)
        hp_traces.append({"id": k + 1, "hdr": dict(sc, sim=cfg[0], routes="%s%s%s" % (cfg[1], "+" + cfg[2] if cfg[2] else "",
                                                                                          " x2 routes" if two else "")), "ev": ev,
                          "_cfg": list(cfg) + [two]})
        combo = (sc["hasExplicit"], len(sc["dna"]) > 0, len(sc["decls"]) > 0)
        combos.add(combo)
        cell = (which_path(sc), cfg[0], "step=1" if cfg[3] == 1 else "step>1")
        cells[cell] = cells.get(cell, 0) + 1
        ctx.nontrivial.add(("hp", json.dumps(sc, sort_keys=True), cfg[0], cfg[1], cfg[2]))
        if combo == (False, True, True) and not any(x.get("kind", "").startswith("HP") for x in samples):
            samples.append({"kind": "HP scenario through research.backtest", "scenario": sc, "simulator": cfg[0],
                            "routes": hp_traces[-1]["hdr"]["routes"], "expected_by_TLC": s_["expected"], "observed": ev})
    for w in ("defaults", "dna", "explicit", "explicit+dna"):
        for sim in ("step", "fast"):
            for st in ("step=1", "step>1"):
                if not cells.get((w, sim, st)):
                    raise Machinery("HpInjection: no scenario run for cell %r" % ((w, sim, st),))
    for sim in ("step", "fast"):
        if not two_cells.get(sim):
            raise Machinery("HpInjection: no two-route explicit run reported from both strategies under the %s simulator" % sim)
    cfg_of = {t["id"]: t.pop("_cfg") for t in hp_traces}
    v2, res2 = tlc.validate_traces("TraceHp", "TraceHp.cfg", hp_traces, ctx.scratch, parts=4, timeout=600)
    hp_bad = 0
    for i, (l, verdict) in sorted(v2.items()):
        if verdict != "ok":
            hp_bad += 1
            sc = hp_traces[i - 1]["hdr"]
            ctx.violation(hp_sig(sc, verdict), "scenario %s: %s; observed %s" % (json.dumps(sc)[:500], verdict,
                                                                               json.dumps(hp_traces[i - 1]["ev"])[:400]),
                          {"kind": "hp", "sc": {k_: v_ for k_, v_ in sc.items() if k_ not in ("sim", "routes")},
                           "cfg": list(cfg_of[i])})
    ctx.log("HP: %d scenarios, %d runs (%d of 8 combinations, %d (path, simulator, step) cells), %d rejected" % (
        len(scen), len(plan), len(combos), len(cells), hp_bad))
    ctx.evaluations = decodes + len(plan)
    ctx.coverage.update({
        "traces_validated_against_impl": len(traces) + len(hp_traces),
        "decodes_checked": decodes, "grid_declarations": n_grid, "declaration_traces": n_decl,
        "seq_traces": tid - n_decl, "free_float_declarations": n_free, "rejected_traces": bad + hp_bad,
        "alphabet": {"length": len(charset), "first": ord(charset[0]), "last": ord(charset[-1])},
        "model_agreement": agree, "model_counterexample_fractional_int": model_cex,
        "hp_scenarios": len(scen), "hp_runs": len(plan), "hp_two_route_explicit_runs": sum(1 for x in plan if x[2]),
        "hp_cells_path_simulator_step": {"%s|%s|%s" % c: n for c, n in sorted(cells.items())}, "hp_combinations_of_8": len(combos),
        "trace_events_checked_by_tlc": sum(x.generated for x in results) + sum(x.generated for x in res2),
        "knife_edge": "rounding ties exist only at the first/last letter (TiesOnlyAtEnds, checked by TLC), where the float "
                      "computation is exact; none skipped",
        "samples": samples,
        "rule": "key = (letter, declaration) for decodes, the DNA and declaration list for longer DNAs, the scenario for "
                "precedence runs; every case is non-trivial (one decode / one backtest each)",
        "exhaustive": True,
    })


def replay(ctx, rp):
    p = rp["payload"]
    if p["kind"] == "hp":
        c_ = p.get("cfg") or list(RUN_CONFIGS[0])
        ev = run_scenario(p["sc"], tuple(c_[:4]), bool(c_[4]) if len(c_) > 4 else False)
        v, _ = tlc.validate_traces("TraceHp", "TraceHp.cfg", [{"id": 1, "hdr": p["sc"], "ev": ev}], ctx.scratch, parts=1)
        l, verdict = v[1]
        print("replay verdict:", l, verdict, json.dumps(ev))
        if verdict != "ok":
            ctx.violation(hp_sig(p["sc"], verdict), "replay: %s" % verdict, p)
        return
    charset = real_charset()
    h = p["hdr"]
    if p["kind"] == "decl" and h.get("free"):
        t = free_decl_trace(1, float(h["fmin"]), float(h["fmax"]), charset, h["free"])
    elif p["kind"] == "decl":
        t, vals = decl_trace(1, h["typ"], h["mn"], h["mx"], h["unit"], charset)
    else:
        t = seq_trace(1, [tuple(d) for d in p["seq"]["decls"]], p["seq"]["dna"])
    v, _ = tlc.validate_traces("TraceDna", "TraceDna.cfg", [t], ctx.scratch, parts=1)
    l, fails, a, b = v[1]
    print("replay verdict:", l, fails or "ok", "agrees with round:", a, "round_clamp:", b)
    for verdict in fails:
        ctx.violation("%s:%s" % (bound_class(h), verdict), "replay rejected, first at event %d: %s" % (l, verdict), p)
