"""C11 - research.backtest is a pure, repeatable function of its arguments.
M: Session.tla - the process-global state (configuration memo, config dict, API drivers, router, store) and
   _isolated_backtest as a sequence of actions with every crash point, for all histories of earlier calls over a
   configuration lattice around a probe; checked by TLC in the intended variant (ProbeSeesItsArguments is an invariant)
   and in the as-is variant (TLC enumerates the violating histories).
R: every distinct process state the probe can start in is exported by TLC with a shortest history; each history is
   executed on the real research.backtest in a forked child of a parent that never ran a session, followed by the probe.
T: the probe-after-history record and the probe-in-a-fresh-process record are compared field class by field class by
   TLC (TraceSession.tla, self-composition), which also says whether the as-is model predicted exactly that."""
import json, os, sys, time
from .. import tlc
from ..core import Machinery
from ..drivers import c11_session as d

META = dict(
    category="model_checking",
    technique="TLA+ model of the process-global session state and of _isolated_backtest with crash points (Session.tla) "
              "checked by TLC in an intended and an as-is variant; every pre-probe process state TLC reaches is "
              "replayed as a call history on the real research.backtest in forked never-used processes; TLC compares "
              "probe-after-history with probe-in-fresh-process field by field (TraceSession.tla)",
    text="TLC explores every history of up to 2-3 earlier research.backtest calls (each differing from the probe in up "
         "to 1-2 of: exchange name, spot/futures, leverage, leverage mode, fee, balance, warm-up, routes, simulator; "
         "each ending normally or aborting at one of 11 crash points from config formatting to terminate()) and proves "
         "for the intended variant of the model that the probe's simulation reads exactly its arguments. For the code "
         "the binding is by replay: one shortest history per distinct process state in which the probe can start is "
         "executed on the real function outside pytest, without any state hygiene, in a forked child of a parent that "
         "never ran a session; the probe's observations (driver, account type, leverage and mode, both fee paths, "
         "balance, margin, warm-up size and visibility, routes, shared vars), its exception, order and trade trace, "
         "metrics, final balances and argument fingerprints are compared by TLC with the same probe in a fresh child. "
         "Bounded: the listed lattice, crash points and history lengths only.",
    note="Trusted: TLC, the JSON encoder, the driver harness/drivers/c11_session.py (one scripted strategy; crashes by "
         "raising in hooks, an oversize order, bad candle spacing, empty warm-up, duplicate routes, bad config), and "
         "that a forked child of a pre-imported parent behaves like a fresh interpreter (thorough tier re-runs a sample "
         "in fresh interpreters). Floats are compared as their repr texts (equal iff bit-equal).",
    design_ref="4/C11")

ALL_OUT = list(d.OUTCOMES)
PROBES = {
    "P1": dict(ex="A", typ="fut", lev="l5", mode="iso", fee="f1", bal="b0", warm="w1", rt="r0", sim="step", hp="part", gen="none", out="ok"),
    "P2": dict(ex="A", typ="spot", lev="l1", mode="cross", fee="f1", bal="b1", warm="w0", rt="r1", sim="fast", hp="none", gen="equity", out="ok"),
}
SMALL = dict(Exs=["A", "B"], Typs=["spot", "fut"], Levs=["l1", "l5"], Modes=["cross", "iso"], Fees=["f0", "f1"],
             Bals=["b0", "b1"], Warms=["w0", "w1"], Rts=["r0", "r1"], Sims=["step", "fast"], Hps=["none", "full", "part"],
             Gens=["none", "logs", "equity"])
WIDE = dict(Exs=["A", "B", "C"], Typs=["spot", "fut"], Levs=["l1", "l2", "l5"], Modes=["cross", "iso"],
            Fees=["f0", "f1", "f2"], Bals=["b0", "b1"], Warms=["w0", "w1", "w2"], Rts=["r0", "r1", "r2"],
            Sims=["step", "fast"], Hps=["none", "full", "part"],
            Gens=["none", "logs", "equity", "hp", "json", "csv", "tv"])
INVARIANTS = ["SeesDriver", "SeesType", "SeesLeverage", "SeesMode", "SeesFeeRate", "SeesFeeInTrades", "SeesBalance",
              "SeesWarmSize", "SeesWarmVisible", "SeesRoutes", "SeesFreshVars", "SeesDebugMode"]
ACTIONS = ["EarlierCall", "ProbeCall", "SetConfig", "SetRoutes", "StoreResetAtStart", "InitStorage", "InjectWarmup",
           "PrepareRoutes", "FirstStep", "Submit", "CloseTrade", "Outputs", "ResetConfig", "StoreResetAtEnd", "Crash"]


def final_coverage(r):
    """per-action (distinct, generated) of the LAST coverage dump only (tlc.py sums interim dumps of long runs)"""
    import re
    out = r.raw
    i = out.rfind("The coverage statistics at")
    res = {}
    for m in tlc._RE_COV.finditer(out[i:] if i >= 0 else out):
        d0, g0 = res.get(m.group(1), (0, 0))
        res[m.group(1)] = (d0 + int(m.group(3)), g0 + int(m.group(4)))
    return res


def tla_set(xs):
    return "{" + ", ".join('"%s"' % x for x in xs) + "}"


def cfg(probe, lattice, calls, flips, intended, export, invariants=()):
    p = probe
    lines = ["SPECIFICATION Spec", "VIEW View", "CHECK_DEADLOCK FALSE", "CONSTANTS"]
    for k in ("Exs", "Typs", "Levs", "Modes", "Fees", "Bals", "Warms", "Rts", "Sims", "Hps", "Gens"):
        lines.append(" %s = %s" % (k, tla_set(lattice[k])))
    lines.append(" Outcomes = %s" % tla_set(ALL_OUT))
    lines.append(' PEx = "%s" PTyp = "%s" PLev = "%s" PMode = "%s" PFee = "%s" PBal = "%s" PWarm = "%s" PRt = "%s" PSim = "%s" PHp = "%s" PGen = "%s"'
                 % (p["ex"], p["typ"], p["lev"], p["mode"], p["fee"], p["bal"], p["warm"], p["rt"], p["sim"], p["hp"], p["gen"]))
    t = "TRUE" if intended else "FALSE"
    lines.append(" MaxCalls = %d MaxFlips = %d" % (calls, flips))
    lines.append(" CacheInvalidated = %s DriversRebuilt = %s SharedVarsReset = %s DebugReset = %s Export = %s"
                 % (t, t, t, t, "TRUE" if export else "FALSE"))
    lines += ["INVARIANT TypeOK", "INVARIANT ProbeReturns"] + ["INVARIANT %s" % i for i in invariants]
    return "\n".join(lines) + "\n"


def instances(ctx):
    """(probe id, lattice, calls, flips) - the histories of each instance are replayed into the code"""
    q = [("P1", SMALL, 2, 1), ("P2", SMALL, 1, 2)]
    t = [("P1", SMALL, 3, 1), ("P2", SMALL, 3, 1), ("P1", WIDE, 2, 1), ("P2", SMALL, 1, 3), ("P1", SMALL, 1, 2)]
    return ctx.pick(q, t)


def model_only(ctx):
    """larger instances, intended variant only: the property as an invariant over a bigger history space"""
    return ctx.pick([("P1", WIDE, 2, 1)], [("P1", SMALL, 3, 2), ("P2", WIDE, 2, 2), ("P2", SMALL, 2, 2)])


# ------------------------------------------------------------------------------------------------ encoding
def expected(a):
    """what the probe's arguments demand of the observations (inputs of TraceSession's ProbeSeesItsArguments)"""
    ex = d.EXN[a["ex"]]
    fut = a["typ"] == "fut"
    wnum, nwarm = d.WARM[a["warm"]]
    trading, data = d.ROUTES[a["rt"]]
    tf = int(trading[0][1][:-1])
    return dict(typ="futures" if fut else "spot", lev=str(d.LEV[a["lev"]]) if fut else "n/a",
                mode=d.MODE[a["mode"]] if fut else "n/a", fee=d.r(float(d.FEE[a["fee"]])), bal=d.r(float(d.BAL[a["bal"]])),
                visible=str(nwarm // tf + 1), slice=str(wnum if 0 < wnum < d.PROBE_ROWS else d.PROBE_ROWS),
                routes=[[ex, s, t] for s, t in trading + data], debug="on" if a.get("gen") == "logs" else "off",
                hp=[[k, str(d.HP_DEFAULTS_PROBE[k] if (d.HP[a["hp"]] or {}).get(k) is None else d.HP[a["hp"]][k])]
                    for k in ("every", "tp", "hold")])


def enc_run(rec):
    """driver record -> the RUN record of TraceSession.tla (strings, lists of strings, booleans)"""
    o = rec.get("obs") or {}
    f = rec.get("final") or {}
    has = bool(o)
    g = lambda k: d.r(o[k]) if k in o else "missing"
    trades = f.get("trades", [])
    orders = f.get("orders", [])
    rates = sorted({t["fee_rate"] for t in trades})
    return dict(
        has_obs=has, exc=rec["exc"], driver=("yes" if orders else "no") if "orders" in f else "missing",
        typ=g("exchange_type"), lev=g("leverage"), mode=g("lev_mode"), fee_rate=g("fee_rate"), bal=g("balance"),
        margin=g("available_margin"), visible=g("visible"), slice=g("slice_len"),
        shared=[[str(k), str(v)] for k, v in o.get("shared", [])],
        routes=[list(map(str, x)) for x in o.get("routes", [])], hp=[[str(k), str(v)] for k, v in o.get("hp", [])],
        first=[g("first_index"), g("first_time")], trade_fee_rates=rates,
        debug=("on" if o.get("debug") else "off") if has else "missing",
        strategy_state=["%s=%s" % (k, d.r(v) if not isinstance(v, list) else ",".join(map(str, v)))
                        for k, v in sorted((o.get("state") or {}).items())],
        strategy_metrics=["|".join(d.r(x) if not isinstance(x, list) else ",".join(map(str, x)) for x in row)
                          for row in o.get("metrics_seen", [])],
        result_items=[str(x) for x in rec.get("result_items", [])],
        args_before=[rec["args_before"][k] for k in d.ARG_NAMES], args_after=[rec["args_after"][k] for k in d.ARG_NAMES],
        orders=["|".join(str(x[k]) for k in ("sym", "side", "type", "qty", "price", "status", "ro", "created", "executed", "where"))
                for x in orders],
        trades=["|".join(str(x[k]) for k in ("type", "qty", "entry", "exit", "opened", "closed", "fee", "pnl")) for x in trades],
        metrics=["%s=%s" % (k, v) for k, v in rec.get("metrics", [])],
        balances=["%s|%s|%s" % (b["ex"], b["type"], ",".join("%s:%s" % (k, v) for k, v in b["assets"])) for b in f.get("balances", [])],
        result_keys=[str(k) for k in rec.get("result_keys", [])],
        hist_args_before=list(rec.get("hist_args_before", [])), hist_args_after=list(rec.get("hist_args_after", [])),
        hist_exc=[str(x) for x in rec.get("hist_exc", [])])


def model_runs(ctx, pid, lattice, calls, flips, label):
    """M for one instance: intended variant verifies the property; as-is variant: statistics + exported histories"""
    probe = PROBES[pid]
    jobs = [dict(module="Session", cfg_text=cfg(probe, lattice, calls, flips, True, False, ["ProbeSeesItsArguments"]),
                 workers=4, coverage=True, timeout=1500, heap="2g"),
            # as-is: one worker (breadth-first: shortest witnesses), statistics and HIST export in the same run
            dict(module="Session", cfg_text=cfg(probe, lattice, calls, flips, False, True), workers=1, coverage=True,
                 timeout=1500, heap="2g")]
    return jobs


def run(ctx):
    t0 = time.time()
    pre = d.preimport()                       # the parent imports jesse but never runs a session
    ctx.assumptions += [
        "a forked child of a pre-imported parent that never ran a session starts like a fresh interpreter "
        "(children verify: no exchange/data/app key memoised, jesse.services.api not imported)",
        "histories: the configuration lattice, crash points and lengths of harness/checks/c11.py:instances; one scripted "
        "strategy (market entries sized by available margin x leverage, take-profit exits, reads an indicator window)",
        "floats compared as repr texts; single exchange per session (what _format_config supports)"]
    insts = instances(ctx)
    # ---------------- M: all TLC runs of all instances concurrently
    jobs, owners = [], []
    for (pid, lattice, calls, flips) in insts:
        label = "%s %s calls<=%d flips<=%d" % (pid, "small" if lattice is SMALL else "wide", calls, flips)
        for kind, j in zip(("intended", "asis"), model_runs(ctx, pid, lattice, calls, flips, label)):
            jobs.append(j)
            owners.append((pid, label, kind))
    for (pid, lattice, calls, flips) in model_only(ctx):
        jobs.append(dict(module="Session", cfg_text=cfg(PROBES[pid], lattice, calls, flips, True, False, ["ProbeSeesItsArguments"]),
                         workers=ctx.pick(2, 8), timeout=1500, heap="4g"))
        owners.append((pid, "%s %s calls<=%d flips<=%d (model only)" % (pid, "small" if lattice is SMALL else "wide", calls, flips), "monly"))
    # the as-is model against the property (smallest instance): TLC must find a counter-example; thorough: one
    # invariant at a time - which classes does the as-is model say are violated?
    jobs.append(dict(module="Session", cfg_text=cfg(PROBES["P1"], SMALL, 2, 1, False, False, ["ProbeSeesItsArguments"]),
                     workers=1, timeout=600, heap="1g"))
    owners.append(("P1", "as-is ProbeSeesItsArguments", "inv"))
    if not ctx.quick:
        for inv in INVARIANTS:
            jobs.append(dict(module="Session", cfg_text=cfg(PROBES["P1"], SMALL, 2, 1, False, False, [inv]), workers=1,
                             timeout=600, heap="1g"))
            owners.append(("P1", "as-is " + inv, "inv"))
    results = tlc.run_parallel(jobs, max_procs=ctx.pick(6, 5))
    ctx.log("TLC: %d runs in %.0fs" % (len(jobs), time.time() - t0))
    exported = {}       # (pid, canonical hist) -> pred
    model_classes = {}
    by_label = {}
    for (pid, label, kind), r in zip(owners, results):
        if kind == "inv":
            model_classes[label.split()[-1]] = "violated" if r.violation else "holds"
            continue
        if kind == "monly":
            if r.violation:
                raise Machinery("intended variant of Session.tla violates %s (%s)\n%s" % (
                    r.violation["name"], label, r.violation["trace"][:3000]))
            ctx.add_tlc(r, "Session intended: " + label)
            continue
        by_label.setdefault(label, {})[kind] = r
        if kind == "intended":
            if r.violation:
                raise Machinery("intended variant of Session.tla violates %s (%s)\n%s" % (
                    r.violation["name"], label, r.violation["trace"][:3000]))
            r.coverage = final_coverage(r)
            ctx.add_tlc(r, "Session intended: " + label)
        elif kind == "asis":
            if r.violation:
                raise Machinery("Session.tla violates %s (%s)\n%s" % (r.violation["name"], label, r.violation["trace"][:3000]))
            r.coverage = final_coverage(r)
            ctx.add_tlc(r, "Session as-is: " + label)
            missing = [a for a in ACTIONS if r.coverage.get(a, (0, 0))[1] == 0]
            if missing:
                raise Machinery("vacuity: actions never taken in %s: %s" % (label, missing))
    for label, rs in by_label.items():
        pid = label.split()[0]
        lines = tlc.tagged(rs["asis"], "HIST")
        want = rs["asis"].coverage.get("ProbeCall", (0, 0))[0]
        if len(lines) != want:
            raise Machinery("history export incomplete for %s: %d HIST lines, TLC counts %d distinct probe starts" % (
                label, len(lines), want))
        for e in lines:
            rec = json.loads(e[1])
            key = (pid, json.dumps(rec["hist"], sort_keys=True))
            if key not in exported:
                exported[key] = dict(hist=rec["hist"], excs=rec["excs"], stale=sorted(rec["stale"]), label=label,
                                     debug=rec["seen"]["debug"])
    ctx.log("M: %d distinct histories exported; as-is model: %s" % (len(exported), model_classes))
    # ---------------- R: run every history + probe in a forked child; one fresh probe per probe id
    from ..session import run_isolated
    keys = sorted(exported)
    cap = int(os.environ.get("C11_MAX_HISTORIES", "0"))
    if cap:
        keys = keys[:cap]
    items = [dict(hist=[], probe=PROBES[pid], seed=ctx.seed) for pid in sorted(PROBES)]
    items += [dict(hist=exported[k]["hist"], probe=PROBES[k[0]], seed=ctx.seed) for k in keys]
    t1 = time.time()
    recs = run_isolated(d.run_item, items, procs=16)
    ctx.log("R: %d histories executed in %.0fs" % (len(items), time.time() - t1))
    for it, rec in zip(items, recs):
        if isinstance(rec, tuple):
            raise Machinery("child failed: %s" % (rec[1][:1500],))
        if "dirty_parent" in rec:
            raise Machinery("parent process was not clean before fork: %s (pre-import memo: %s)" % (rec["dirty_parent"], pre))
    fresh = {pid: enc_run(rec) for pid, rec in zip(sorted(PROBES), recs)}
    traces, meta = [], {}
    for i, (k, rec) in enumerate(zip(keys, recs[len(PROBES):])):
        pid = k[0]
        e = exported[k]
        hdr = dict(probe=PROBES[pid], exp=expected(PROBES[pid]), hist=e["hist"], has_pred=True, pred_stale=e["stale"],
                   pred_excs=e["excs"], pred_debug=e["debug"], relational=False)
        traces.append(dict(id=i + 1, hdr=hdr, after=enc_run(rec), fresh_id=pid))
        meta[i + 1] = (pid, e)
        differs = [c for c in e["hist"] if any(c[x] != PROBES[pid][x] for x in d.DIMS) or c["out"] != "ok"]
        if differs:
            ctx.nontrivial.add(k)
    judge(ctx, traces, meta, fresh)
    # harness validation: forked children vs brand-new interpreters on a few items (probe alone + longest histories)
    pick = [0] + sorted(range(len(PROBES), len(items)), key=lambda j: (-len(items[j]["hist"]), j))[:ctx.pick(1, 5)]
    ctx.coverage["fork_vs_fresh_interpreter_pairs"] = fork_equals_fresh_interpreter(
        ctx, [items[j] for j in pick], [recs[j] for j in pick])
    n_sessions = sum(len(t["hdr"]["hist"]) + 1 for t in traces) + len(PROBES)
    samples = []
    for t in traces:
        if len(t["hdr"]["hist"]) >= 2 and len(samples) < 2:
            samples.append({"history": t["hdr"]["hist"], "probe": t["hdr"]["probe"], "model_predicts_stale": t["hdr"]["pred_stale"],
                            "outcomes_of_earlier_calls": t["after"]["hist_exc"],
                            "probe_after_history": {k: t["after"][k] for k in ("driver", "typ", "lev", "mode", "fee_rate", "bal", "slice", "visible", "shared", "exc")},
                            "probe_fresh": {k: fresh[t["fresh_id"]][k] for k in ("driver", "typ", "lev", "mode", "fee_rate", "bal", "slice", "visible", "shared", "exc")}})
    ctx.evaluations = len(traces)
    ctx.coverage.update({
        "traces_validated_against_impl": len(traces), "histories_replayed": len(traces), "real_sessions_run": n_sessions,
        "as_is_model_classes": model_classes, "samples": samples, "exhaustive": not cap,
        "rule": "one history per distinct process state in which the probe can start (TLC: VIEW hides the history, BFS gives a "
                "shortest witness), completeness validated against TLC's count of distinct ProbeCall successors; non-trivial = "
                "at least one earlier call that differs from the probe in a dimension or aborts; distinct by (probe, history)",
    })


def spawn_item(item):
    """the same item in a brand-new interpreter (cold import) - validates the fork shortcut"""
    import subprocess
    code = ("import sys, json; from harness.drivers import c11_session as d; "
            "print('C11REC ' + json.dumps(d.run_item(json.loads(sys.argv[1]))))")
    env = dict(os.environ)
    p = subprocess.run([sys.executable, "-W", "ignore", "-c", code, json.dumps(item)], stdout=subprocess.PIPE,
                       stderr=subprocess.PIPE, text=True, timeout=900, env=env, cwd=os.getcwd())
    for line in p.stdout.splitlines():
        if line.startswith("C11REC "):
            return json.loads(line[7:])
    raise Machinery("fresh interpreter failed: %s" % (p.stderr[-1500:],))


def fork_equals_fresh_interpreter(ctx, items, recs):
    """TLC compares the forked-child record of some items with the record of the same item run in a fresh
    interpreter (every field class); a difference is a defect of the harness, not of jesse"""
    from concurrent.futures import ThreadPoolExecutor
    with ThreadPoolExecutor(max_workers=4) as ex:
        spawned = list(ex.map(spawn_item, items))
    traces, fr = [], {}
    for i, (it, a, b) in enumerate(zip(items, recs, spawned)):
        hdr = dict(probe=it["probe"], exp=expected(it["probe"]), hist=[], has_pred=False, pred_stale=[], pred_excs=[],
                   pred_debug="off", relational=True)
        ea, eb = enc_run(a), enc_run(b)
        ea["hist_exc"], eb["hist_exc"] = [], []
        traces.append(dict(id=i + 1, hdr=hdr, after=ea, fresh_id="i%d" % i))
        fr["i%d" % i] = eb
    verdicts, _ = tlc.validate_traces("TraceSession", "TraceSession.cfg", traces, ctx.sub("forkcheck"), parts=1,
                                      hdr={"fresh": fr})
    for i, v in sorted(verdicts.items()):
        if v[1] != "ok":
            raise Machinery("a forked child does not behave like a fresh interpreter for %s: %s" % (
                json.dumps(items[i - 1]["hist"]), v[1]))
    return len(traces)


def judge(ctx, traces, meta, fresh):
    """TLC compares the two runs of every pair; Python turns TLC's verdict text into signatures.
    fresh: {fresh_id: RUN record of the probe in a never-used process} (shared by all traces of a probe)"""
    verdicts, results = tlc.validate_traces("TraceSession", "TraceSession.cfg", traces, ctx.scratch,
                                            parts=min(12, 1 + len(traces) // 150), hdr={"fresh": fresh})
    agree = {}
    shapes = {}
    for i, v in sorted(verdicts.items()):
        nsteps, classes, model, freshv = v
        pid, e = meta[i]
        agree[model] = agree.get(model, 0) + 1
        payload = {"hist": e["hist"], "probe_id": pid, "probe": PROBES.get(pid, e.get("probe"))}
        if classes != "ok":
            for c in classes.split("|"):
                if c.split(":")[0] == "inputs":
                    raise Machinery("the harness did not give both runs the same arguments (history %r)" % (e["hist"],))
                shapes[c] = shapes.get(c, 0) + 1
                ctx.violation(c,
                              "probe %s after %s differs from the same probe in a fresh process in: %s (model: %s)" % (
                                  pid, json.dumps(e["hist"]), classes, model), payload)
        if freshv != "ok":
            for c in freshv.split("|"):
                ctx.violation("%s:fresh-process" % c, "probe %s in a fresh process does not see its own arguments: %s" % (pid, freshv),
                              {"hist": [], "probe_id": pid, "probe": PROBES.get(pid)})
        if model in ("neither", "outcomes-differ", "debug-mode-differs") and len(ctx.notes) < 20:
            ctx.notes.append("model calibration: %s for history %s: flagged %s, as-is model predicts %s / outcomes %s" % (
                model, json.dumps(e["hist"]), classes, e.get("stale"), e.get("excs")))
    ctx.coverage["conformance_to_model_variant"] = agree
    ctx.coverage["signature_counts"] = shapes
    ctx.coverage["trace_fields_checked_by_tlc"] = sum(r.generated for r in results)
    ctx.log("T: %d pairs judged; model agreement %s" % (len(verdicts), agree))
    return verdicts


def replay(ctx, rp):
    from ..session import run_isolated
    d.preimport()
    p = rp["payload"]
    probe = p.get("probe") or PROBES[p["probe_id"]]
    items = [dict(hist=[], probe=probe, seed=rp.get("seed", 1)), dict(hist=p["hist"], probe=probe, seed=rp.get("seed", 1))]
    recs = run_isolated(d.run_item, items, procs=2)
    for rec in recs:
        if isinstance(rec, tuple):
            raise Machinery("child failed: %s" % (rec[1][:1500],))
    hdr = dict(probe=probe, exp=expected(probe), hist=p["hist"], has_pred=False, pred_stale=[], pred_excs=[], pred_debug="off", relational=False)
    traces = [dict(id=1, hdr=hdr, after=enc_run(recs[1]), fresh_id="f")]
    v = judge(ctx, traces, {1: (p.get("probe_id", "replay"), {"hist": p["hist"], "probe": probe})}, {"f": enc_run(recs[0])})
    print("replay verdict:", v[1])
