"""C18 - the dynamic array behaves like a growing list of rows.
M: DynArray.tla (implementation-shaped model refines the Python list) checked by TLC.
R: every transition of that model, with a shortest witness, replayed into the real class;
   the recorded behaviour is validated by TLC against the list model (TraceDynArray.tla).
T: long random operation sequences recorded from the real class, validated the same way."""
import json, random
import numpy as np
from .. import tlc
from ..core import Machinery

NONE = -9999

META = dict(
    category="model_checking",
    technique="TLA+ refinement model (DynArray.tla: implementation-shaped buffer/index model vs Python list) checked "
              "exhaustively by TLC; every model transition replayed into the real class and every recorded run "
              "validated by TLC against the list model (TraceDynArray.tla)",
    text="TLC proves, for every operation sequence up to the stated depth over buckets 1-4 with and without drop-oldest, "
         "that the implementation-shaped model returns exactly what Python list semantics returns for every read and "
         "that no list-valid operation raises. The binding to the code is two-way: each transition of that state graph "
         "is executed on the real DynamicNumpyArray along a shortest witness, and these runs plus long random sequences "
         "are accepted or rejected by TLC against the list model alone (all int indices, slice bound pairs around the "
         "length incl. None, get_past_item). Bounded, not a proof for unbounded lengths.",
    note="Trusted: TLC, the JSON encoder, the 60-line driver that calls the public methods. delete() driven with "
         "0<=index<len, axis=0; 1-column rows with small integer values; no slice steps.",
    design_ref="4/C18")


def cfg(bucket, drop, maxlen, depth, multi, writes, export):
    inv = ["VisibleIsList", "LenOK", "NoValidOpRaises", "CapacityOK", "GetItemOK", "GetSliceOK", "PastOK", "DropBound"]
    return ("SPECIFICATION Spec\nVIEW View\nCONSTRAINT Depth\nCHECK_DEADLOCK FALSE\n"
            "CONSTANTS Bucket = %d DropAt = %d MaxLen = %d MaxDepth = %d MaxMulti = %d Writes = %s Export = %s\n"
            % (bucket, drop, maxlen, depth, multi, "TRUE" if writes else "FALSE", "TRUE" if export else "FALSE")
            + "".join("INVARIANT %s\n" % i for i in inv))


def instances(ctx):
    # (bucket, drop, maxlen, depth, multi, writes)
    # bucket 1 is real: CandlesState.init_storage allocates int(bucket / timeframe minutes + 1) rows = 1 for 1D
    q = [(1, 0, 5, 6, 2, False), (2, 0, 6, 7, 3, False), (3, 0, 7, 7, 3, False), (2, 0, 4, 4, 2, True), (3, 0, 4, 4, 2, True),
         (2, 4, 9, 9, 0, False), (3, 6, 8, 7, 2, False)]
    t = [(1, 0, 6, 7, 3, False), (1, 0, 4, 4, 2, True), (1, 3, 7, 7, 2, False), (2, 0, 8, 8, 3, False), (3, 0, 8, 8, 3, False), (4, 0, 9, 8, 4, False), (2, 0, 5, 5, 2, True),
         (3, 0, 5, 5, 2, True), (4, 0, 5, 5, 2, True), (2, 4, 12, 12, 0, False), (3, 6, 14, 14, 0, False),
         (2, 4, 8, 8, 2, False), (3, 6, 9, 8, 3, False), (4, 6, 9, 8, 3, False)]
    return ctx.pick(q, t)


# ------------------------------------------------------------------ driving the real class
def new_array(bucket, drop):
    from jesse.libs import DynamicNumpyArray
    return DynamicNumpyArray((bucket, 1), drop_at=(drop or None))


_NEAR = [False]      # near mode: model value k is stored as 60000 + k/1024 (exact in float64): successive rows are
BASE = 60000.0       # "almost equal" floats, as candle rows are; TLC still sees the integers k


def enc(v):
    return BASE + v / 1024.0 if _NEAR[0] else float(v)


def dec(x):
    if not _NEAR[0]:
        return int(x)
    k = (float(x) - BASE) * 1024.0
    return int(k) if k == int(k) else -7


def rows(v, n):
    return np.array([[enc(v + k)] for k in range(n)])


def b2py(x):
    return None if x == NONE else x


def visible(arr):
    return [dec(arr[i][0]) for i in range(len(arr))]


def apply_op(arr, op):
    """perform one operation on the real object; returns the recorded event"""
    k = op["k"]
    ev = dict(op)
    try:
        if k == "append":
            arr.append(np.array([enc(op["v"])]))
        elif k == "append_multiple":
            arr.append_multiple(rows(op["v"], op["n"]))
        elif k == "delete":
            arr.delete(op["i"], axis=0)
        elif k == "flush":
            arr.flush()
        elif k == "setitem":
            arr[op["i"]] = np.array([enc(op["v"])])
        elif k == "setslice":
            arr[slice(b2py(op["a"]), b2py(op["b"]))] = rows(op["v"], op["n"])
        else:
            raise Machinery("unknown op %r" % (op,))
        ev["exc"] = "none"
        try:
            ev["vis"] = visible(arr)
        except Exception as ex:  # a broken __getitem__/__len__ shows up as a differing visible list
            ev["vis"] = [-1]
    except Machinery:
        raise
    except Exception as ex:
        ev["exc"] = type(ex).__name__
        ev["vis"] = []
    return ev


def read_table(arr, rng=None, full=True, nslices=40):
    n = len(arr)
    idxs = list(range(-(n + 2), n + 3))
    gi = []
    for i in idxs:
        try:
            gi.append({"i": i, "ok": True, "r": dec(arr[i][0])})
        except IndexError:
            gi.append({"i": i, "ok": False, "r": 0})
    bounds = [NONE] + idxs
    pairs = [(a, b) for a in bounds for b in bounds]
    if not full:
        pairs = rng.sample(pairs, min(nslices, len(pairs)))
    gs = []
    for a, b in pairs:
        try:
            r = arr[slice(b2py(a), b2py(b))]
            gs.append({"a": a, "b": b, "ok": True, "r": [dec(x[0]) for x in r]})
        except Exception:
            gs.append({"a": a, "b": b, "ok": False, "r": []})
    past = []
    for p in range(0, n + 2):
        try:
            past.append({"p": p, "ok": True, "r": dec(arr.get_past_item(p)[0])})
        except IndexError:
            past.append({"p": p, "ok": False, "r": 0})
    return {"k": "reads", "len": n, "gi": gi, "gs": gs, "past": past}


def hist_to_ops(hist, lens):
    """TLC history records -> driver ops (setslice needs the number of rows = addressed slice length,
    which TLC's witness fixes through the value counter of the next record)"""
    ops = []
    for h in hist:
        k = h["op"]
        if k == "append":
            ops.append({"k": "append", "v": h["v"]})
        elif k == "append_multiple":
            ops.append({"k": "append_multiple", "v": h["v"], "n": h["n"]})
        elif k == "delete":
            ops.append({"k": "delete", "i": h["k"]})
        elif k == "flush":
            ops.append({"k": "flush"})
        elif k == "setitem":
            ops.append({"k": "setitem", "i": h["i"], "v": h["v"]})
        elif k == "setslice":
            ops.append({"k": "setslice", "a": NONE if h["a"] == -9999 else h["a"],
                        "b": NONE if h["b"] == -9999 else h["b"], "v": h["v"], "n": h["n"]})
    return ops


def py_slice_len(n, a, b):
    return len(range(n)[slice(b2py(a), b2py(b))])


def sig_of(verdict):
    """stable signature: operation + argument class"""
    parts = verdict.split(":")
    op = parts[0]

    def cls(x):
        x = x.strip('"')
        if x in ("N", "-9999"):
            return "None"
        return "neg" if int(x) < 0 else "nonneg"
    if op == "getslice" and len(parts) == 3:
        return "getslice:start=%s,stop=%s" % (cls(parts[1]), cls(parts[2]))
    if op in ("getitem", "past") and len(parts) == 2:
        return "%s:%s" % (op, cls(parts[1]))
    return verdict


def run(ctx):
    rng = random.Random(ctx.seed)
    ctx.assumptions += ["delete() is driven with 0 <= index < len and axis=0 (as every caller in jesse does)",
                        "rows are 1-column; values are small integers (exact in float64)",
                        "slice steps are not used (the class ignores them on reads)"]
    traces, samples, classes = [], [], set()
    tid = 0
    stats = {"validated": 0, "events": 0, "bad": 0}

    def flush():
        """TLC decides the accumulated traces (batched so that memory stays bounded)"""
        if not traces:
            return
        verdicts, results = tlc.validate_traces("TraceDynArray", "TraceDynArray.cfg", traces, ctx.scratch, parts=12)
        byid = {t["id"]: t for t in traces}
        for i, (l, v) in sorted(verdicts.items()):
            if v != "ok":
                stats["bad"] += 1
                t = byid[i]
                ctx.violation(sig_of(v), "trace %d (%s, bucket=%d drop=%d) rejected at event %d: %s" % (
                    i, t["hdr"]["src"], t["hdr"]["bucket"], t["hdr"]["drop"], l, v),
                              {"hdr": t["hdr"], "ev": t["ev"][:l]})
        stats["validated"] += len(traces)
        stats["events"] += sum(r.generated for r in results)
        del traces[:]
    # ---------------- M + edge export
    insts = instances(ctx)
    # one single-worker run per instance: model checking (all invariants) + export of every transition with its witness
    runs = tlc.run_parallel([dict(module="DynArray", cfg_text=cfg(*inst, export=True), workers=1, coverage=True,
                                  timeout=1500) for inst in insts], max_procs=8)
    for inst, r in zip(insts, runs):
        bucket, drop, maxlen, depth, multi, writes = inst
        ctx.add_tlc(r, "DynArray bucket=%d drop=%d maxlen=%d depth=%d multi=%d writes=%s" % inst)
        if r.violation:
            # the model is fixed text: a violation here means spec and intended design disagree -> machinery
            raise Machinery("DynArray.tla violates %s for %r\n%s" % (r.violation["name"], inst, r.violation["trace"][:3000]))
        edges = tlc.tagged(r, "EDGE")
        ctx.log("M %r: %d distinct, %d edges, %.1fs" % (inst, r.distinct, len(edges), r.wall))
        if len(edges) != r.generated - 1:
            ctx.notes.append("edge export: %d edges vs %d generated" % (len(edges), r.generated - 1))
        for e in edges:
            rec = json.loads(e[1])
            hist = rec["hist"]
            # setslice length: recompute from value counters (n = next value - this value)
            for j, h in enumerate(hist):
                if h["op"] == "setslice":
                    h["n"] = None
            ops = []
            arr = new_array(bucket, drop)
            evs = []
            for h in hist:
                if h["op"] == "setslice":
                    a = NONE if h["a"] == -9999 else h["a"]
                    b = NONE if h["b"] == -9999 else h["b"]
                    h["n"] = py_slice_len(len(arr), a, b)
                op = hist_to_ops([h], None)[0]
                evs.append(apply_op(arr, op))
            post_class = (bucket, drop, hist[-1]["op"], rec["idx"], rec["cap"])
            first = post_class not in classes
            classes.add(post_class)
            try:
                evs.append(read_table(arr, rng, full=first))
            except Exception as ex:
                raise Machinery("read table failed: %r" % (ex,))
            tid += 1
            traces.append({"id": tid, "hdr": {"bucket": bucket, "drop": drop, "src": "R"}, "ev": evs})
            kinds = {h["op"] for h in hist}
            if len(kinds & {"delete", "append_multiple", "setslice", "setitem", "flush"}) >= 1 or drop:
                ctx.nontrivial.add(("R",) + post_class + (len(hist),))
            if len(samples) < 3 and len(hist) >= 4:
                samples.append({"kind": "R: TLC witness replayed", "bucket": bucket, "drop": drop,
                                "ops": [e for e in evs[:-1]], "expected_list": rec["post"]})
            if len(traces) >= 20000:
                flush()
        r.raw = ""
        r.prints = []
    n_r = tid
    ctx.log("R: %d transitions replayed, %d (idx,cap,op) classes" % (n_r, len(classes)))
    # ---------------- T: long random sequences
    n_t = ctx.pick(60, 1500)
    length = ctx.pick(150, 400)
    for s in range(n_t):
        bucket = rng.choice([1, 2, 3, 4, 5, 7, 10, 16])
        drop = rng.choice([0, 0, 0, 4, 6, 10, 20])
        _NEAR[0] = (s % 3 == 1)          # every third sequence stores nearly equal float rows
        # every fourth sequence drives TWO arrays of the same shape in an interleaved way (each is its own trace with
        # its own value range): state shared between instances shows up as rows of the other array
        nlanes = 2 if s % 4 == 2 else 1
        lanes = [{"arr": new_array(bucket, drop), "evs": [], "v": 1 + 100000 * j, "held": None, "countdown": 0,
                  "dead": False} for j in range(nlanes)]
        for step in range(length * nlanes):
            L = rng.choice(lanes)
            if L["dead"]:
                continue
            arr, evs = L["arr"], L["evs"]
            n = len(arr)
            c = rng.random()
            if L["held"] is not None:
                # a row object read earlier is still held by the caller: only appends and deletions in between,
                # then the held object itself is appended (a list would append the row as it was when read)
                L["countdown"] -= 1
                if L["countdown"] <= 0:
                    ev = {"k": "append_held"}
                    try:
                        arr.append(L["held"])
                        ev["exc"] = "none"; ev["vis"] = visible(arr)
                    except Exception as ex:
                        ev["exc"] = type(ex).__name__; ev["vis"] = []
                    evs.append(ev); L["held"] = None
                    if ev["exc"] != "none":
                        L["dead"] = True
                    continue
                c = c * 0.75 if n else 0.0
            elif n > 0 and rng.random() < 0.08:
                i = rng.randrange(-n, n)
                L["held"] = arr[i]
                evs.append({"k": "hold", "i": i, "ok": True, "r": dec(L["held"][0])})
                L["countdown"] = rng.randint(0, 6)      # 0: the held row is appended at once (arr.append(arr[i]))
                continue
            v = L["v"]
            if n == 0 and c >= 0.3:          # an empty array is filled by a single or (30 %) a bulk append
                c = 0.5 if rng.random() < 0.3 else 0.0
            if c < 0.45:
                op = {"k": "append", "v": v}; L["v"] += 1
            elif c < 0.6:
                m = rng.randint(1, 2 * bucket + 1)
                op = {"k": "append_multiple", "v": v, "n": m}; L["v"] += m
            elif c < 0.75:
                op = {"k": "delete", "i": rng.randrange(n)}
            elif c < (0.80 if nlanes == 2 else 0.78):
                op = {"k": "flush"}
            elif c < 0.88:
                op = {"k": "setitem", "i": rng.randrange(-n, n), "v": v}; L["v"] += 1
            else:
                a = rng.choice([NONE] + list(range(-(n + 1), n + 2)))
                b = rng.choice([NONE] + list(range(-(n + 1), n + 2)))
                m = py_slice_len(n, a, b)
                if m == 0:
                    continue
                op = {"k": "setslice", "a": a, "b": b, "v": v, "n": m}; L["v"] += m
            ev = apply_op(arr, op)
            evs.append(ev)
            if ev["exc"] != "none":
                L["dead"] = True
                continue
            if rng.random() < 0.08:
                evs.append(read_table(arr, rng, full=False, nslices=25))
            if len(arr) > 60 and not drop:
                evs.append(apply_op(arr, {"k": "flush"}))
        for j, L in enumerate(lanes):
            if L["held"] is None and not L["dead"]:
                L["evs"].append(read_table(L["arr"], rng, full=False, nslices=60))
            tid += 1
            traces.append({"id": tid, "hdr": {"bucket": bucket, "drop": drop, "src": "T", "near": _NEAR[0], "lane": j,
                                              "lanes": nlanes}, "ev": L["evs"]})
            ctx.nontrivial.add(("T", bucket, drop, s, j))
        _NEAR[0] = False
        if s == 0:
            samples.append({"kind": "T: random sequence (first 12 events)", "bucket": bucket, "drop": drop,
                            "ops": lanes[0]["evs"][:12]})
        if len(traces) >= 20000:
            flush()
    # ---------------- TLC decides
    flush()
    ctx.evaluations = stats["validated"]
    ctx.coverage.update({
        "traces_validated_against_impl": stats["validated"], "transitions_replayed": n_r, "random_sequences": n_t,
        "trace_events_checked_by_tlc": stats["events"], "rejected_traces": stats["bad"],
        "impl_state_classes_covered": len(classes), "samples": samples,
        "rule": "R: one trace per transition of DynArray.tla (shortest witness); non-trivial = witness contains a delete/"
                "bulk append/assignment/flush or a drop-oldest limit; distinct by (bucket, drop, op, idx, cap, depth). "
                "T: random sequences, distinct by seed.",
        "exhaustive": True,
    })


def replay(ctx, rp):
    p = rp["payload"]
    _NEAR[0] = bool(p["hdr"].get("near"))
    arr = new_array(p["hdr"]["bucket"], p["hdr"]["drop"])
    evs = []
    held = None
    for e in p["ev"]:
        if e["k"] == "hold":
            held = arr[e["i"]]
            evs.append({"k": "hold", "i": e["i"], "ok": True, "r": dec(held[0])})
        elif e["k"] == "append_held":
            ev = {"k": "append_held"}
            try:
                arr.append(held); ev["exc"] = "none"; ev["vis"] = visible(arr)
            except Exception as ex:
                ev["exc"] = type(ex).__name__; ev["vis"] = []
            evs.append(ev)
        elif e["k"] == "reads":
            evs.append(read_table(arr, random.Random(0), full=True))
        else:
            op = {k: v for k, v in e.items() if k not in ("exc", "vis")}
            evs.append(apply_op(arr, op))
    evs.append(read_table(arr, random.Random(0), full=True))
    tr = [{"id": 1, "hdr": p["hdr"], "ev": evs}]
    verdicts, _ = tlc.validate_traces("TraceDynArray", "TraceDynArray.cfg", tr, ctx.scratch, parts=1)
    l, v = verdicts[1]
    print("replay verdict:", l, v)
    if v != "ok":
        ctx.violation(sig_of(v), "replay rejected at event %d: %s" % (l, v), p)
