"""Per-property metadata used to generate MANIFEST.json (bin/gen_manifest)."""
CHECKS = {}
NOT_APPLICABLE = {}


def check(pid, **kw):
    CHECKS[pid] = kw


check("C18",
      category="model_checking",
      technique="TLA+ refinement model (DynArray.tla: implementation-shaped buffer/index model vs Python list) checked "
                "exhaustively by TLC; every model transition replayed into the real class and every recorded run "
                "validated by TLC against the list model (TraceDynArray.tla)",
      text="TLC proves, for every operation sequence up to the stated depth over buckets 2-4 with and without drop-oldest, "
           "that the implementation-shaped model returns exactly what Python list semantics returns for every read and "
           "that no list-valid operation raises. The binding to the code is two-way: each transition of that state graph "
           "is executed on the real DynamicNumpyArray along a shortest witness, and these runs plus long random sequences "
           "are accepted or rejected by TLC against the list model alone (all int indices, slice bound pairs around the "
           "length incl. None, get_past_item). Bounded, not a proof for unbounded lengths.",
      note="Trusted: TLC, the JSON encoder, the 60-line driver that calls the public methods. delete() driven with "
           "0<=index<len, axis=0; 1-column rows with small integer values; no slice steps.",
      design_ref="4/C18")
