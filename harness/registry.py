"""Collects per-property META dicts (harness/checks/cNN.py) for bin/gen_manifest."""
import importlib, pkgutil, os

# properties not claimed, with the reason (kept current by hand)
NOT_APPLICABLE = {}


def ready():
    """ids the coordinator has integrated (one per line in harness/ready.txt); only these are registered"""
    p = os.path.join(os.path.dirname(os.path.abspath(__file__)), "ready.txt")
    return {l.strip().upper() for l in open(p) if l.strip() and not l.startswith("#")}


def collect():
    checks = {}
    d = os.path.join(os.path.dirname(os.path.abspath(__file__)), "checks")
    for m in sorted(pkgutil.iter_modules([d])):
        if not m.name.startswith("c") or not m.name[1:].isdigit():
            continue
        mod = importlib.import_module("harness.checks." + m.name)
        if m.name.upper() not in ready():
            continue
        if getattr(mod, "META", None) and not mod.META.get("disabled"):
            checks[m.name.upper()] = mod.META
    return checks
