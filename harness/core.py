"""Check driver: tiers, seeds, scratch, evidence files, known-findings matching, exit codes."""
import os, sys, json, time, hashlib, shutil, tempfile, importlib, traceback, random

ROOT = os.path.dirname(os.path.dirname(os.path.abspath(__file__)))
EVIDENCE_DIR = os.path.join(ROOT, "evidence")
REPLAY_DIR = os.path.join(ROOT, "replays")
FINDINGS = os.path.join(ROOT, "known_findings.json")
REPO = os.environ.get("VERIF_REPO", "/repo")


class Machinery(Exception):
    """the check itself could not run (exit 2) - never reported as a violation"""


class Ctx:
    def __init__(self, pid, tier, seed, replay=None):
        self.pid, self.tier, self.seed, self.replay = pid, tier, seed, replay
        self.scratch = tempfile.mkdtemp(prefix="verif-%s-" % pid)
        self.rng = random.Random(seed)
        self.t0 = time.time()
        self.violations = []      # dicts: sig, detail, replay(payload)
        self.coverage = {}
        self.assumptions = []
        self.notes = []
        self.level = "model_checking"
        self.nontrivial = set()
        self.evaluations = 0

    @property
    def quick(self):
        return self.tier == "quick"

    def pick(self, quick, thorough):
        return quick if self.tier == "quick" else thorough

    def sub(self, name):
        d = os.path.join(self.scratch, name)
        os.makedirs(d, exist_ok=True)
        return d

    def violation(self, sig, detail, payload=None):
        """sig: stable signature (call site + input class); detail: human text; payload: replay data"""
        self.violations.append({"sig": sig, "detail": detail, "payload": payload})

    def add_tlc(self, r, label=None):
        """accumulate TLC model-checking statistics into the evidence"""
        c = self.coverage
        c["states"] = c.get("states", 0) + r.distinct
        c["transitions"] = c.get("transitions", 0) + r.transitions
        runs = c.setdefault("tlc_runs", [])
        runs.append({"label": label or "", "generated": r.generated, "distinct": r.distinct, "depth": r.depth,
                     "wall_s": round(r.wall, 2), "actions": {k: list(v) for k, v in sorted(r.coverage.items())}})

    def log(self, *a):
        print("[%s %6.1fs]" % (self.pid, time.time() - self.t0), *a, file=sys.stderr, flush=True)


def load_findings():
    if not os.path.exists(FINDINGS):
        return []
    with open(FINDINGS) as f:
        res = json.load(f).get("findings", [])
    d = os.path.join(ROOT, "known_findings.d")       # per-property drafts, merged into the main file by hand
    if os.path.isdir(d):
        for fn in sorted(os.listdir(d)):
            if fn.endswith(".json"):
                with open(os.path.join(d, fn)) as f:
                    res += json.load(f).get("findings", [])
    return res


def _canon_hash(obj):
    return hashlib.sha1(json.dumps(obj, sort_keys=True, default=str).encode()).hexdigest()[:12]


def finish(ctx):
    """classify violations, write evidence and replays, print verdict lines; returns exit code"""
    known = {f["signature"]: f for f in load_findings() if f["property"] == ctx.pid and f.get("status") == "known"}
    new, seen_known = [], {}
    for v in ctx.violations:
        if v["sig"] in known:
            seen_known.setdefault(v["sig"], []).append(v)
        else:
            new.append(v)
    for sig, vs in sorted(seen_known.items()):
        print("KNOWN-FINDING: property=%s %s [%s] (%d occurrence(s) in this run)" %
              (ctx.pid, known[sig]["what"], sig, len(vs)))
    os.makedirs(REPLAY_DIR, exist_ok=True)
    shown = set()
    for v in new:
        if v["sig"] in shown:
            continue
        shown.add(v["sig"])
        path = os.path.join(REPLAY_DIR, "%s-%s.json" % (ctx.pid, _canon_hash([v["sig"], v["payload"]])))
        with open(path, "w") as f:
            json.dump({"property": ctx.pid, "signature": v["sig"], "detail": v["detail"], "seed": ctx.seed,
                       "tier": ctx.tier, "payload": v["payload"]}, f, indent=1, default=str)
        print("VIOLATION property=%s replay=%s" % (ctx.pid, path))
        print("  signature: %s\n  detail: %s" % (v["sig"], str(v["detail"])[:1500]))
    cov = dict(ctx.coverage)
    cov.setdefault("evaluations", ctx.evaluations)
    cov.setdefault("distinct_nontrivial", len(ctx.nontrivial))
    cov.setdefault("samples", [])
    cov["known_findings_seen"] = {k: len(v) for k, v in seen_known.items()}
    cov["new_violation_signatures"] = sorted(shown)
    ev = {"property_id": ctx.pid, "tier": ctx.tier, "seed": ctx.seed, "level": ctx.level, "coverage": cov,
          "assumptions": ctx.assumptions, "wall_s": round(time.time() - ctx.t0, 2),
          "violations": len(new), "notes": ctx.notes}
    if ctx.replay is None and not os.environ.get("VERIF_NO_EVIDENCE"):
        os.makedirs(EVIDENCE_DIR, exist_ok=True)
        tmp = os.path.join(EVIDENCE_DIR, ".%s.json.tmp" % ctx.pid)
        with open(tmp, "w") as f:
            json.dump(ev, f, indent=1, default=str)
        os.replace(tmp, os.path.join(EVIDENCE_DIR, "%s.json" % ctx.pid))
    print("%s %s tier=%s seed=%d wall=%.1fs violations(new)=%d known=%d states=%s traces=%s" % (
        ctx.pid, "FAIL" if new else "PASS", ctx.tier, ctx.seed, time.time() - ctx.t0, len(shown), len(seen_known),
        cov.get("states"), cov.get("traces_validated_against_impl")))
    return 1 if new else 0


def main(argv=None):
    import argparse
    ap = argparse.ArgumentParser()
    ap.add_argument("pid")
    ap.add_argument("--tier", default=os.environ.get("VERIF_TIER", "quick"), choices=["quick", "thorough"])
    ap.add_argument("--seed", type=int, default=int(os.environ.get("VERIF_SEED", "1")))
    ap.add_argument("--replay", default=None)
    a = ap.parse_args(argv)
    pid = a.pid.upper()
    if a.replay:
        a.replay = os.path.abspath(a.replay)      # the check runs in a scratch cwd
    ctx = Ctx(pid, a.tier, a.seed, a.replay)
    cwd = os.getcwd()
    try:
        os.chdir(ctx.scratch)          # jesse creates storage/ in the cwd
        mod = importlib.import_module("harness.checks.%s" % pid.lower())
        if a.replay:
            with open(a.replay) as f:
                rp = json.load(f)
            mod.replay(ctx, rp)
        else:
            mod.run(ctx)
        code = finish(ctx)
    except Exception as ex:
        traceback.print_exc()
        print("MACHINERY-FAILURE property=%s %s: %s" % (pid, type(ex).__name__, str(ex)[:2000]))
        code = 2
    finally:
        os.chdir(cwd)
        if os.environ.get("VERIF_KEEP"):
            print("scratch kept:", ctx.scratch)
        else:
            shutil.rmtree(ctx.scratch, ignore_errors=True)
    sys.stdout.flush()
    sys.stderr.flush()
    os._exit(code)
