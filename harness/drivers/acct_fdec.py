"""C03, decimal lattice: long random futures histories (100-300 operations, 2-3 symbols on one wallet, leverage 1..125,
fee rates 0 / 0.0004 / 0.00075 / 0.001, prices with cents, quantities with three decimals, cross and isolated mode)
driven on real Order / Position / FuturesExchange objects; the state is logged as scaled integers (quantity 1e-3,
price 1e-2, money 1e-5, entry 1e-6) and judged step by step by TraceFuturesDec.tla.  A second family probes the
rejection boundary with binary-exact values (exact zone of the trace spec).  Python drives, rounds and writes JSON."""
import random
from fractions import Fraction
from ..core import Machinery
from ..session import ObjSession, run_isolated

SYMS = {"A": "BTC-USDT", "B": "ETH-USDT", "C": "LTC-USDT"}
RSYM = {v: k for k, v in SYMS.items()}
QU, PU, MU, EU = 10 ** 3, 10 ** 2, 10 ** 5, 10 ** 6
ST = {"ACTIVE": "A", "EXECUTED": "E", "CANCELED": "C"}
TYP = {"MARKET": "MKT", "LIMIT": "LMT", "STOP": "STP"}
LIM = 2 ** 31 - 1


def sc(x, per):
    if x is None:
        return 0
    n = int(round(Fraction(float(x)) * per))
    return max(-LIM, min(LIM, n))


class FDecSession:
    def __init__(self, hdr):
        from jesse.exchanges import Sandbox
        import jesse.helpers as jh
        self.hdr = hdr
        self.syms = list(hdr["syms"])
        self.sess = ObjSession(typ="futures", fee=hdr["fee_u"] / 100000, lev=hdr["lev"], mode=hdr["mode"],
                               balance=hdr["start"] / MU, symbols=tuple(SYMS[s] for s in self.syms),
                               price=hdr["p0"][self.syms[0]] / PU, cancel_on_close=True)
        for s in self.syms:
            self.sess.set_price(SYMS[s], hdr["p0"][s] / PU)
        self.ex = self.sess.ex
        self.exchange = self.sess.exchange
        self.sandbox = Sandbox(self.ex)
        self.orders = []
        self.jh = jh

    def pos(self, s):
        return self.sess.pos[SYMS[s]]

    def snapshot(self):
        e = self.exchange
        d = {"wallet": sc(e.assets[e.settlement_currency], MU), "margin": sc(e.available_margin, MU),
             "q": {}, "entry": {}, "pnl": {}, "cur": {}, "resB": {}, "resS": {},
             "ord": [{"sym": RSYM[o.symbol], "side": o.side, "typ": TYP.get(o.type, o.type), "q": sc(abs(o.qty), QU),
                      "p": sc(o.price, PU), "ro": bool(o.reduce_only), "st": ST.get(str(o.status).upper(), str(o.status))}
                     for o in self.orders]}
        for s in self.syms:
            p = self.pos(s)
            b = self.jh.base_asset(SYMS[s])
            d["q"][s] = sc(p.qty, QU)
            d["entry"][s] = sc(p.entry_price, EU)
            d["pnl"][s] = sc(p.pnl, MU)
            d["cur"][s] = sc(p.current_price, PU)
            d["resB"][s] = [[sc(abs(r[0]), QU), sc(r[1], PU)] for r in e.buy_orders[b][:].tolist()]
            d["resS"][s] = [[sc(abs(r[0]), QU), sc(r[1], PU)] for r in e.sell_orders[b][:].tolist()]
        return d

    def apply(self, op):
        from jesse import exceptions
        from jesse.enums import order_types
        k = op["op"]
        ev = {"k": k, "exc": "none"}
        try:
            if k == "submit":
                sym = SYMS[op["sym"]]
                q = float(op["qlit"])
                p = self.pos(op["sym"]).current_price if op["typ"] == "MKT" else float(op["plit"])
                ev.update(sym=op["sym"], side=op["side"], typ=op["typ"], ro=op["ro"], q=sc(q, QU), p=sc(p, PU), acc=True)
                try:
                    f = {"MKT": self.sandbox.market_order, "LMT": self.sandbox.limit_order, "STP": self.sandbox.stop_order}[op["typ"]]
                    self.orders.append(f(sym, q, p, op["side"], op["ro"]))
                except exceptions.InsufficientMargin:
                    ev["acc"] = False
            elif k == "cancel":
                ev["id"] = op["id"]
                self.orders[op["id"] - 1].cancel()
            elif k == "exec":
                ev["id"] = op["id"]
                o = self.orders[op["id"] - 1]
                if o.is_active and o.type != order_types.MARKET:
                    self.sess.pos[o.symbol].current_price = float(o.price)
                o.execute()
            elif k == "price":
                self.pos(op["sym"]).current_price = float(op["plit"])
                ev["sym"] = op["sym"]
                ev["p"] = sc(float(op["plit"]), PU)
            else:
                raise Machinery("unknown op %r" % (op,))
        except Machinery:
            raise
        except Exception as e:
            ev["exc"] = type(e).__name__
        ev["post"] = self.snapshot()
        return ev


def _run(hdr, ops_iter):
    s = FDecSession(hdr)
    init = s.snapshot()
    evs, ops = [], []
    for op in ops_iter(s):
        ev = s.apply(op)
        ops.append(op)
        evs.append(ev)
        if (ev["k"] == "submit" and not ev["acc"]) or ev["exc"] != "none":
            break
    return init, evs, ops


def one_history(arg):
    tid, hdr, seed, nops = arg
    rng = random.Random(seed)

    def gen(s):
        cents = dict(hdr["p0"])
        for step in range(nops * 3):
            if step >= nops * 3 - 1:
                return
            sy = rng.choice(s.syms)
            p = s.pos(sy)
            pq = sc(p.qty, QU)
            act = [i + 1 for i, o in enumerate(s.orders) if o.is_active]
            acts = [i for i in act if s.orders[i - 1].symbol == SYMS[sy]]
            x = rng.random()
            if x < 0.40 or not act:
                if len(acts) >= 7:
                    continue
                side = rng.choice(["buy", "sell"])
                typ = rng.choice(["MKT", "LMT", "STP"])
                cur = sc(p.current_price, PU)
                pu = cur if typ == "MKT" else max(500, min(50000, cur + rng.randint(-cur // 10, cur // 10)))
                ro = pq != 0 and ((pq > 0) == (side == "sell")) and rng.random() < 0.5
                margin = s.exchange.available_margin
                probe = rng.random() < 0.01
                # size: a fraction of what the margin allows (input planning only), three decimals, <= 3.000
                cap = margin * hdr["lev"] / (pu / PU) * rng.choice([0.05, 0.1, 0.2, 0.3])
                qu = int(min(3000, max(1, cap * QU))) if not probe else 3000
                qu = rng.randint(max(1, qu // 3), max(1, qu))
                wal = s.exchange.assets[s.exchange.settlement_currency]
                y = rng.random()
                if acts and y < 0.12:
                    # look-alike: same (side, qty, price) as a resting order with the other reduce-only flag where legal
                    o = s.orders[rng.choice(acts) - 1]
                    side, qu, pu = o.side, sc(abs(o.qty), QU), sc(o.price, PU)
                    typ = rng.choice(["LMT", "STP"])
                    ro = (not o.reduce_only) and pq != 0 and ((pq > 0) == (side == "sell"))
                    probe = True                 # (sizes are what they are)
                elif margin > wal > 0 and y < 0.45 and typ != "MKT":
                    # available margin above the wallet balance (unrealised profit): size between the two (accept) or
                    # a little above the margin (reject)
                    over = rng.random() < 0.06
                    need = rng.uniform(margin * 1.02, margin * 1.3) if over else rng.uniform(wal, margin)
                    qw = int(need * hdr["lev"] / (pu / PU) * QU)
                    if 1 <= qw <= 3000:
                        qu, ro, probe = qw, False, True
                if ro and not (acts and y < 0.12):
                    qu = rng.choice([abs(pq), max(1, abs(pq) // 2), min(3000, abs(pq) + rng.randint(1, 500)), qu])
                    qu = max(1, min(3000, qu))
                elif not ro:
                    resting = sum(sc(abs(o.qty), QU) for o in s.orders if o.is_active and o.symbol == SYMS[sy]
                                  and not o.reduce_only and o.side == side)
                    signed = pq if side == "buy" else -pq
                    if max(signed, 0) + resting + qu > 12000:
                        continue
                    if not probe and margin <= 0:
                        continue
                yield {"op": "submit", "sym": sy, "side": side, "typ": typ, "ro": ro, "qlit": "%.3f" % (qu / QU),
                       "plit": "%.2f" % (pu / PU)}
            elif x < 0.68:
                yield {"op": "exec", "id": rng.choice(act)}
            elif x < 0.80:
                yield {"op": "cancel", "id": rng.choice(act)}
            else:
                cur = sc(p.current_price, PU)
                nu = max(500, min(50000, cur + rng.randint(-cur // 25 - 1, cur // 25 + 1)))
                yield {"op": "price", "sym": sy, "plit": "%.2f" % (nu / PU)}
            if len(s.orders) + step > 10 ** 6:
                return

    count = [0]

    def bounded(s):
        for op in gen(s):
            yield op
            count[0] += 1
            if count[0] >= nops:
                return
    init, evs, ops = _run(hdr, bounded)
    return {"id": tid, "hdr": hdr, "seed": seed, "init": init, "ev": evs, "ops": ops}


def boundary_history(arg):
    """exact zone: untouched wallet, no position, power-of-two leverage, binary-exact quantities (k/8) and prices (k/4):
    resting orders eat the margin, then one order needs exactly what is left (must be accepted), then one a little
    more (must be rejected)"""
    tid, hdr, seed = arg
    rng = random.Random(seed)

    def gen(s):
        for step in range(rng.randint(1, 4)):
            sy = rng.choice(s.syms)
            side = rng.choice(["buy", "sell"])
            yield {"op": "submit", "sym": sy, "side": side, "typ": rng.choice(["LMT", "STP"]), "ro": False,
                   "qlit": "%.3f" % (rng.randint(1, 8) / 8), "plit": "%.2f" % (rng.randint(40, 400) / 4)}
            if rng.random() < 0.25:
                act = [i + 1 for i, o in enumerate(s.orders) if o.is_active]
                if act and rng.random() < 0.5:
                    yield {"op": "cancel", "id": rng.choice(act)}
                else:
                    yield {"op": "price", "sym": sy, "plit": "%.2f" % (rng.randint(40, 400) / 4)}
        # what is left (exact arithmetic on exact values: input planning)
        left = Fraction(s.exchange.available_margin) * hdr["lev"]
        sy = rng.choice(s.syms)
        side = rng.choice(["buy", "sell"])
        # the new order adds to its side of its symbol; the margin uses max(buy, sell) per symbol: choose the heavier side
        import jesse.helpers as jh
        b = jh.base_asset(SYMS[sy])
        nb = sum(Fraction(abs(r[0])) * Fraction(r[1]) for r in s.exchange.buy_orders[b][:].tolist())
        ns = sum(Fraction(abs(r[0])) * Fraction(r[1]) for r in s.exchange.sell_orders[b][:].tolist())
        side = "buy" if nb >= ns else "sell"
        cands = list(range(1, 25))
        rng.shuffle(cands)
        for q8 in cands:
            p = left * 8 / q8                       # price at which q8/8 needs exactly what is left
            if (p * 4).denominator == 1 and 10 <= p <= 500:
                over = rng.random() < 0.4
                yield {"op": "submit", "sym": sy, "side": side, "typ": "LMT", "ro": False,
                       "qlit": "%.3f" % ((q8 + (1 if over else 0)) / 8), "plit": "%.2f" % float(p)}
                if not over:                         # accepted at equality: nothing is left, the smallest order must fail
                    yield {"op": "submit", "sym": sy, "side": side, "typ": "STP", "ro": False, "qlit": "0.125",
                           "plit": "%.2f" % float(p)}
                return
    init, evs, ops = _run(hdr, gen)
    return {"id": tid, "hdr": hdr, "seed": seed, "init": init, "ev": evs, "ops": ops}


def _hdr(rng, nsym, exact=False):
    syms = ["A", "B", "C"][:nsym]
    if exact:
        return {"syms": syms, "lev": rng.choice([1, 2, 4, 8, 16]), "fee_u": rng.choice([0, 40, 75, 100]),
                "start": rng.choice([50, 100]) * MU, "mode": rng.choice(["cross", "isolated"]),
                "p0": {s: rng.randint(40, 400) * 25 for s in syms}}
    if rng.random() < 0.3:       # windfall family: unrealised profit easily exceeds the small wallet
        return {"syms": syms, "lev": rng.choice([5, 10, 20]), "fee_u": rng.choice([0, 40, 75, 100]),
                "start": rng.choice([20, 50]) * MU, "mode": rng.choice(["cross", "isolated"]),
                "p0": {s: rng.randint(2000, 40000) for s in syms}}
    return {"syms": syms, "lev": rng.choice([1, 2, 3, 5, 10, 20, 50, 100, 125]), "fee_u": rng.choice([0, 40, 75, 100]),
            "start": rng.choice([100, 1000, 5000]) * MU, "mode": rng.choice(["cross", "isolated"]),
            "p0": {s: rng.randint(2000, 40000) for s in syms}}


def histories(n_long, n_boundary, seed, first_id=1, nops=(100, 300), procs=12):
    rng = random.Random(seed * 65537 + 11)
    items = [(first_id + i, _hdr(rng, 2 + i % 2), rng.randrange(10 ** 9), rng.randint(*nops)) for i in range(n_long)]
    bitems = [(first_id + n_long + i, _hdr(rng, 1 + i % 3, exact=True), rng.randrange(10 ** 9)) for i in range(n_boundary)]
    res = run_isolated(one_history, items, procs=min(procs, max(1, n_long // 4)), chunk=20) if n_long > 6 else [one_history(i) for i in items]
    res += run_isolated(boundary_history, bitems, procs=min(8, max(1, n_boundary // 40)), chunk=100) if n_boundary > 40 else \
        [boundary_history(i) for i in bitems]
    for r in res:
        if isinstance(r, tuple) and r and r[0] == "EXC":
            raise Machinery("decimal futures history child failed: %s" % r[1])
    return res


def replay(p):
    def gen(s):
        for op in p["ops"]:
            yield op
    init, evs, ops = _run(p["hdr"], gen)
    return {"id": 1, "hdr": p["hdr"], "seed": p.get("seed", 0), "init": init, "ev": evs, "ops": ops}


def validate(traces, scratch, parts=8):
    import os
    from concurrent.futures import ThreadPoolExecutor
    from .. import tlc, encode
    from . import acct
    if not traces:
        return {}, [], 0, (0, 0)
    slim = [{"id": t["id"], "hdr": t["hdr"], "init": t["init"], "ev": t["ev"]} for t in traces]
    parts = max(1, min(parts, len(slim)))
    jobs = []
    for pi in range(parts):
        pd = os.path.join(scratch, "tv-fdec-%d-%d" % (pi, len(os.listdir(scratch))))
        os.makedirs(pd, exist_ok=True)
        path = os.path.join(pd, "traces.json")
        encode.dump({"traces": slim[pi::parts]}, path)
        jobs.append(dict(module="TraceFuturesDec", cfg_file="TraceFuturesDec.cfg", workers=1, env={"TRACE_FILE": path},
                         scratch=pd, timeout=1500, allow_violation=False, heap=acct.HEAP))
    with ThreadPoolExecutor(max_workers=acct.MAXJVM) as ex:
        results = list(ex.map(lambda j: tlc.run(**j), jobs))
    verdicts, knife, exact, exacteq = {}, 0, 0, 0
    for r in results:
        for t in tlc.tagged(r, "VERDICT"):
            verdicts[t[1]] = tuple(t[2:])
        knife += len(tlc.tagged(r, "KNIFE"))
        exact += len(tlc.tagged(r, "EXACT"))
        exacteq += len(tlc.tagged(r, "EXACTEQ"))
    missing = [t["id"] for t in traces if t["id"] not in verdicts]
    if missing:
        raise Machinery("no verdict for %d decimal futures traces (first ids %s)\n%s" % (len(missing), missing[:5], results[0].raw[-2000:]))
    return verdicts, results, knife, (exact, exacteq)


def report(ctx, pid, traces, verdicts):
    bad = 0
    for t in traces:
        v = verdicts[t["id"]]
        if v[1] != "ok":
            bad += 1
            ctx.violation("%s futures-decimal %s" % (pid, v[1]),
                          "decimal futures trace %d (%s) rejected at event %d: %s; last ops=%s" % (
                              t["id"], {k: t["hdr"][k] for k in ("syms", "lev", "fee_u", "mode")}, v[0], v[1],
                              t["ops"][max(0, v[0] - 4):v[0]]),
                          {"fdec": True, "hdr": t["hdr"], "seed": t["seed"], "ops": t["ops"][:max(v[0], 1)]})
    return bad
