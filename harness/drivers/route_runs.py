"""In-vivo driver of X02 (multi-route event layer): real `research.backtest` sessions with 2-3 trading routes (futures, one
wallet, different timeframes, both simulators).  Every route runs the policy strategy of strat_runs extended with the
on_route_* hooks, on_cancel and shared_vars; the recorder of strat_runs logs fills / hooks / steps, this module adds

  rhook   s (receiving route), n (open|close|inc|red|canceled), a (route of the strategy passed as argument, 0 = unknown),
          same (the argument IS that route's strategy object), t (minute the receiver sees), pm (minute index of the newest 1m
          candle of the receiver's own symbol that the receiver can read at that moment)
  xcb/xce s: Strategy._execute_cancel of route s begins / ends     oncancel  s: route s's own on_cancel()
  svr/svw s, v: value of shared_vars['last'] read / written in before()

Routes are numbered in router order (= symbol order).  Nothing is judged here."""
import random
from .. import session as S
from . import strat_runs as D

TFM = {'1m': 1, '3m': 3, '5m': 5, '15m': 15, '30m': 30, '1h': 60}
KIND = {'route-open-position': 'open', 'route-close-position': 'close', 'route-increased-position': 'inc',
        'route-reduced-position': 'red', 'route-canceled': 'canceled'}


def make_route_strategy(policy, rec):
    Base = D.make_strategy(policy, rec.log)
    P = Base.POLICY
    p_edit_route = policy.get('p_edit_route', 0.15)

    class RoutePol(Base):
        def _rh(self, kind, other):
            rec.route_hook(self, kind, other)
            r = random.Random(D._h(P['seed'], self.symbol, 'route', kind, getattr(other, 'symbol', '?'), self.index))
            if self.position.qty != 0 and r.random() < p_edit_route:      # a receiver may react by editing its own exits
                self._set_exits(r, 1 if self.position.qty > 0 else -1, abs(self.position.qty), r.choice(['sl', 'tp', 'both']))
                self._decl('on_route_' + kind)

        def on_route_open_position(self, strategy):
            self._rh('open', strategy)

        def on_route_close_position(self, strategy):
            self._rh('close', strategy)

        def on_route_increased_position(self, strategy):
            self._rh('inc', strategy)

        def on_route_reduced_position(self, strategy):
            self._rh('red', strategy)

        def on_route_canceled(self, strategy):
            self._rh('canceled', strategy)

        def on_cancel(self):
            rec.emit('oncancel', s=rec.sym_idx[self.symbol])

        def before(self):
            s = rec.sym_idx[self.symbol]
            rec.emit('svr', s=s, v=int(self.shared_vars.get('last', 0)))
            v = s * 100000 + self.index + 1
            self.shared_vars['last'] = v
            rec.emit('svw', s=s, v=v)
            super().before()

    return RoutePol


class RouteRec(D.StratRec):
    def route_hook(self, strat, kind, other):
        from jesse.routes import router
        a, same = 0, False
        for k, r in enumerate(router.routes):
            if r.strategy is other:
                a, same = k + 1, True
        if not same and getattr(other, 'symbol', None) in self.sym_idx:
            a = self.sym_idx[other.symbol]
        from jesse.store import store
        c = store.candles.get_current_candle(strat.exchange, strat.symbol, '1m')       # what the receiver can read of its own symbol
        self.emit('rhook', s=self.sym_idx[strat.symbol], n=kind, a=a, same=same, t=int((strat.time - S.T0) // S.MIN),
                  pm=int((int(c[0]) - S.T0) // S.MIN))

    def install(self):
        super().install()
        from jesse.strategies import Strategy
        me = self
        orig = Strategy._execute_cancel
        self._orig_xc = orig

        def xc(self_):
            s = me.sym_idx[self_.symbol]
            me.emit('xcb', s=s)
            try:
                return orig(self_)
            finally:
                me.emit('xce', s=s)
        Strategy._execute_cancel = xc

    def uninstall(self):
        from jesse.strategies import Strategy
        Strategy._execute_cancel = self._orig_xc
        super().uninstall()


def run_item(item):
    item = dict(item)
    item['config'] = D.config_of(item)
    rec = RouteRec(item)
    cls = make_route_strategy(item['policy'], rec)
    rec.install()
    try:
        routes = [{'symbol': D.SYMS[si], 'timeframe': item['tfs'][si]} for si in range(item['nsym'])]
        out = S.run_backtest(None, item['config'], D.build_candles(item), strategy_cls=cls, fast=item.get('fast', False), routes=routes)
    finally:
        rec.uninstall()
    ev = rec.finish(out)
    hdr = {'nsym': item['nsym'], 'nroutes': item['nsym'], 'spot': False, 'fee_n': item['fee'][0], 'fee_d': item['fee'][1], 'n': item['n'],
           'tf': [TFM[x] for x in item['tfs']], 'fast': bool(item.get('fast')), 'pseed': item['policy'].get('seed', 0),
           'cseed': item['cseed'], 'pden': 1000, 'exc': (out.get('exc') or 'none')[:120]}
    return {'id': item['id'], 'hdr': hdr, 'ev': ev}


TF_SETS = [['1m', '1m'], ['1m', '5m'], ['5m', '1m'], ['5m', '15m'], ['5m', '5m', '15m'], ['1m', '3m', '5m'], ['15m', '5m'], ['3m', '5m'],
           ['5m', '15m', '5m'], ['15m', '15m']]


def gen_items(seed, count, n_steps=60, pairs=False):
    """2-3 routes on different symbols with different timeframes; pairs=True: every item twice (step and fast simulator),
    ids 2k-1 / 2k, all timeframes > 1m, sparse entries so that many chunks hold at most one resting fill"""
    rng = random.Random(seed)
    items = []
    for j in range(count):
        tfs = rng.choice([t for t in TF_SETS if not pairs or '1m' not in t])
        slow = max(TFM[x] for x in tfs)
        pol = dict(seed=rng.randrange(10 ** 6), base=100, tick=1.0, qtys=(1, 2), max_entry_rows=rng.choice([1, 2]),
                   max_exit_rows=rng.choice([1, 2]), exits_in=rng.choice(['go', 'on_open']), entry_every=rng.choice([3, 4, 5]),
                   long_phase=1, short_phase=2, p_cancel=rng.choice([0.3, 0.7]), p_edit=0.15, p_liq=0.03, resize_always=True,
                   entry_offsets=(0, -1, -2, 1, 2), sl_dist=(3, 8), tp_dist=(2, 7), p_edit_route=rng.choice([0.0, 0.2]))
        n = min(slow * n_steps, 1500)
        n = (n // slow) * slow
        if pairs:       # (no reaction inside on_route_* hooks: what a receiver can read there differs between the simulators, see X02 finding)
            pol.update(p_edit_route=0.0, entry_every=rng.choice([5, 7, 9]), sl_dist=(6, 12), tp_dist=(5, 11), entry_offsets=(0, 0, -3, 3), p_liq=0.0,
                       max_entry_rows=1, max_exit_rows=1)
        it = dict(kind='routes', nsym=len(tfs), tfs=tfs, n=n, cseed=rng.randrange(10 ** 6), fee=rng.choice([[0, 1], [1, 1024]]),
                  lev=rng.choice([2, 5]), balance=100000, policy=pol, walk=dict(step=rng.choice([1, 2]), wick=1))
        if pairs:
            items.append(dict(it, id=2 * j + 1, fast=False))
            items.append(dict(it, id=2 * j + 2, fast=True))
        else:
            items.append(dict(it, id=j + 1, fast=rng.choice([False, True])))
    return items


def project(trace):
    """the observable event sequence of a run for the comparison of the two simulators: deliveries, executions, fills
    (renaming / filtering only)"""
    out = []
    for e in trace['ev']:
        if e['k'] == 'rhook':
            out.append({'k': 'd', 't': e['t'], 'r': e['s'], 'h': e['n'], 'a': e['a'], 'cm': -1})
        elif e['k'] == 'step':
            out.append({'k': 'x', 't': e['t'], 'r': e['s'], 'h': 'step', 'a': e['i'], 'cm': -1})
        elif e['k'] == 'fillb':
            out.append({'k': 'f', 't': e['t'], 'r': e['s'], 'h': e['side'] + '-' + e['type'], 'a': e['p'] * 100 + e['q'], 'cm': e['cm']})
    return out
