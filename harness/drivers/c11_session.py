"""C11 driver: call histories of the real `jesse.research.backtest` inside ONE process (a forked child of a
pre-imported parent that never ran a session), followed by an instrumented probe call.

Deliberately NO reset_process_state() anywhere in this file: the process-global state that leaks between the
calls (helpers.CACHED_CONFIG, services.api.api.drivers, jesse.config.config, store.vars) is the object of study.

Argument objects are shared between the calls of one process the way a researcher's script shares them (ArgPool:
equal exchange + routes + warm-up -> the very same candles dict, warm-up dict and data_routes list); fingerprints are
taken when an object is created and again at the end, so a change made by ANY call is seen.

Abstract call description (exactly the record the TLA+ module Session.tla uses):
  {ex: "A"|"B"|"C", typ: "spot"|"fut", lev: "l1"|"l2"|"l5", mode: "cross"|"iso", fee: "f0"|"f1"|"f2",
   bal: "b0"|"b1", warm: "w0"|"w1"|"w2", rt: "r0"|"r1"|"r2", sim: "step"|"fast",
   hp: "none"|"full"|"part" (hyperparameters=None / every declared name / a strict subset),
   gen: "none"|"logs"|"equity"|"hp"|"json"|"csv"|"tv" (which generate_* flag the call sets), out: <outcome>}
outcomes (where the call ends):
  ok          returns normally
  cfgerr      config dict without 'fee'                   -> KeyError in _format_config (nothing installed yet)
  routes      the same exchange-symbol pair routed twice   -> InvalidRoutes in install_routes (config set, routes set)
  spacing     candles with 2-minute spacing                -> ValueError after router.initiate + init_storage
  warmup      warm-up dict with empty arrays               -> ValueError in inject_warmup_candles_to_store
  init        strategy __init__ raises                     -> in _prepare_routes before the Broker is built
  first       hook before() raises at its first call       -> after _prepare_routes, before any indicator/order
  idle        should_long() raises before the first entry  -> indicators were read, no order yet
  reject      an oversize entry order                      -> InsufficientMargin / InsufficientBalance out of the run
  open        on_open_position() raises                    -> orders executed, no trade closed yet
  closed      on_close_position() raises (strategy had read self.metrics) -> a trade was closed
  terminate   terminate() raises                           -> after the simulation loop, before the outputs
"""
import copy, hashlib, os, sys, traceback
import numpy as np

T0 = 1609459200000
MIN = 60_000
PROBE_ROWS = 1000
N_MIN = 120                      # multiple of every route timeframe (1m, 5m, 15m): the fast simulator needs that

EXN = {'A': 'Sandbox', 'B': 'Bybit USDT Perpetual', 'C': 'Binance Spot'}
LEV = {'l1': 1, 'l2': 2, 'l5': 5}
MODE = {'cross': 'cross', 'iso': 'isolated'}
FEE = {'f0': 0.0, 'f1': 0.001, 'f2': 0.0004}
BAL = {'b0': 10_000, 'b1': 2_500}
WARM = {'w0': (0, 0), 'w1': (40, 60), 'w2': (100, 120)}       # (config warm_up_candles, injected 1m candles)
ROUTES = {                                                       # (trading (symbol, tf) list, data (symbol, tf) list)
    'r0': ([('BTC-USDT', '1m')], []),
    'r1': ([('BTC-USDT', '5m')], [('ETH-USDT', '15m')]),
    'r2': ([('BTC-USDT', '1m'), ('ETH-USDT', '5m')], []),
}
OUTCOMES = ('ok', 'cfgerr', 'routes', 'spacing', 'warmup', 'init', 'first', 'idle', 'reject', 'open', 'closed',
            'terminate')
DIMS = ('ex', 'typ', 'lev', 'mode', 'fee', 'bal', 'warm', 'rt', 'sim', 'hp', 'gen')
GEN = {'none': {}, 'logs': {'generate_logs': True}, 'equity': {'generate_equity_curve': True},
       'hp': {'generate_hyperparameters': True}, 'json': {'generate_json': True}, 'csv': {'generate_csv': True},
       'tv': {'generate_tradingview': True}}
# the hyperparameters argument; the strategies declare three names, the probe's with other defaults than the
# earlier sessions' (a default written into a shared dict by one session would be used by the next)
HP = {'none': None, 'full': {'every': 9, 'tp': 2, 'hold': 5}, 'part': {'every': 9}}
HP_DEFAULTS_PROBE = {'every': 9, 'tp': 3, 'hold': 4}
HP_DEFAULTS_EARLIER = {'every': 9, 'tp': 2, 'hold': 6}


class Boom(Exception):
    """the exception a strategy hook raises on purpose"""


def walk(n, seed, start=100, ts0=T0, spacing=MIN):
    """integer lattice random walk, always >= 40; frequent reversals so that +-3 exits are hit within minutes"""
    import random
    rng = random.Random(seed)
    c = np.zeros((n, 6))
    p = start
    for i in range(n):
        o = p + (rng.choice((-1, 1)) if rng.random() < 0.15 else 0)      # close -> open gaps: the simulator edits such rows
        cl = max(40, o + rng.randint(-2, 2))
        h = max(o, cl) + rng.randint(0, 2)
        l = max(39, min(o, cl) - rng.randint(0, 2))
        c[i] = [ts0 + i * spacing, o, cl, h, l, rng.randint(1, 100)]
        p = cl
    return c


def make_strategy(plan, obs=None, defaults=None):
    """One deterministic strategy for history calls and probes.  plan: dict(out=<outcome>, oversize=bool).
    obs (probe only): dict filled with what the strategy can see through its public properties."""
    from jesse.strategies import Strategy
    import jesse.helpers as jh
    out = plan.get('out', 'ok')
    defaults = dict(defaults or (HP_DEFAULTS_PROBE if obs is not None else HP_DEFAULTS_EARLIER))

    class C11Strategy(Strategy):
        def __init__(self):
            if out == 'init':
                raise Boom('init')
            super().__init__()
            self._seen_first = False
            self._opened_index = None
            self._m = {}                  # what self.metrics said after the first closed trades

        def hyperparameters(self):
            return [{'name': 'every', 'type': int, 'min': 5, 'max': 20, 'default': defaults['every']},
                    {'name': 'tp', 'type': int, 'min': 1, 'max': 6, 'default': defaults['tp']},
                    {'name': 'hold', 'type': int, 'min': 2, 'max': 9, 'default': defaults['hold']}]

        def _hp(self, name):
            # a name the caller did not pass falls back to the declared default
            return (self.hp or {}).get(name, defaults[name])

        # ---- what the running simulation effectively reads
        def _window(self):
            # exactly what every indicator does with its candles (sequential=False)
            return jh.slice_candles(self.candles, False)

        def before(self):
            if not self._seen_first:
                self._seen_first = True
                if out == 'first':
                    raise Boom('first')
                # what an indicator would slice a long candle array to (jh.slice_candles, sequential=False)
                w = jh.slice_candles(np.empty((PROBE_ROWS, 6)), False)
                if obs is not None and self.symbol == 'BTC-USDT':
                    ex = self.position.exchange
                    from jesse.routes import router
                    obs.update(
                        leverage=(self.leverage if self.exchange_type == 'futures' else 'n/a'),
                        fee_rate=self.fee_rate, exchange_type=self.exchange_type,
                        lev_mode=str(getattr(ex, 'futures_leverage_mode', 'n/a')),
                        balance=self.balance, available_margin=self.available_margin,
                        visible=len(self.candles), slice_len=len(w),
                        shared=sorted((str(k), str(v)) for k, v in self.shared_vars.items()),
                        routes=[[x['exchange'], x['symbol'], x['timeframe']] for x in router.all_formatted_routes],
                        debug=bool(jh.is_debugging()), hp=[(k, self._hp(k)) for k in ('every', 'tp', 'hold')],
                        first_index=self.index, first_time=int(self.time - T0) // MIN,
                        state=dict(portfolio_value=self.portfolio_value, trades=len(self.trades),
                                   daily_balances=len(self.daily_balances), vars=sorted(map(str, self.vars.items())),
                                   class_state=class_state(type(self))))
            if obs is not None and self.index == 3:
                # ordinary strategy logging; in debug mode logger.error publishes to the (absent) dashboard
                self.log('c11 probe: step 3')
                self.log('c11 probe: careful', 'error')
            self.shared_vars['sessions_seen'] = self.shared_vars.get('sessions_seen', 0) + (1 if self.index == 0 else 0)

        def _signal(self):
            w = self._window()
            ref = w[0, 2]                  # close of the oldest candle an indicator would see
            return 1 if self.price >= ref else -1

        def should_long(self):
            if out == 'idle' and self.index >= 2:
                raise Boom('idle')
            return self.index % self._hp('every') == 2 and (self._signal() > 0 or self.is_spot_trading)

        def should_short(self):
            return (not self.is_spot_trading) and self.index % self._hp('every') == 2 and self._signal() < 0

        def _qty(self):
            # 25-40 % of what the account can carry with its leverage, steered by what self.metrics / self.trades /
            # self.daily_balances said after the latest closed trade; 6x as much for the rejection outcome
            share = 0.4
            if self._m:
                total, net, win, last_pnl, ndaily = self._m[max(self._m)]
                share = 0.25 + 0.05 * ((int(abs(net)) + int(abs(last_pnl)) + total + ndaily) % 4)
            budget = self.available_margin * self.leverage * (2.4 if out == 'reject' else share)
            return max(round(budget / self.price, 3), 0.001)

        def go_long(self):
            self.buy = self._qty(), self.price

        def go_short(self):
            self.sell = self._qty(), self.price

        def should_cancel_entry(self):
            return True

        def on_open_position(self, order):
            if out == 'open':
                raise Boom('open')
            self._opened_index = self.index
            d = self._hp('tp') if self.is_long else -self._hp('tp')
            self.take_profit = abs(self.position.qty), self.position.entry_price + d

        def update_position(self):
            if self._opened_index is not None and self.index - self._opened_index >= self._hp('hold'):
                self.take_profit = abs(self.position.qty), self.price

        def on_close_position(self, order):
            self._opened_index = None
            n = len(self.trades)
            if n <= 2 and n not in self._m:          # adaptive sizing from the running metrics (pandas: only twice)
                m = self.metrics
                self._m[n] = (m['total'], m['net_profit'], m['win_rate'], self.trades[-1].pnl, len(self.daily_balances))
                if obs is not None and self.symbol == 'BTC-USDT':
                    obs.setdefault('metrics_seen', []).append(
                        [n, m['total'], m['net_profit'], m['win_rate'], m['fee'], len(self.trades), self.trades[-1].pnl,
                         len(self.daily_balances), self.portfolio_value, sorted(map(str, self.vars.items()))])
            if out == 'closed':
                raise Boom('closed')

        def terminate(self):
            if out == 'terminate':
                raise Boom('terminate')

    C11Strategy.__qualname__ = 'C11Strategy'
    return C11Strategy


class ArgPool:
    """The argument objects of one process.  A researcher who calls research.backtest several times re-uses
    what does not change: calls with the same exchange name, routes and warm-up get THE SAME candles dict,
    warm-up dict and data_routes list, calls with equal config values the same config dict, calls passing the same
    kind of hyperparameters the same dict, earlier calls with the same plan the same routes list and strategy class
    (the probe's routes carry its own observing strategy class).  The fingerprint of
    every object is taken when it is created - a later change by whatever call is a change of an argument."""

    def __init__(self, seed):
        self.seed = seed
        self.objs = {}
        self.created = {}
        self.classes = set()          # ids of the strategy classes handed to jesse

    def get(self, key, make):
        if key not in self.objs:
            self.objs[key] = make()
            self.created[key] = fingerprint(self.objs[key], self)
        return self.objs[key], self.created[key]


def class_state(cls):
    """sizes of the mutable containers that live on the strategy's classes (class attributes are process state)"""
    res = []
    for c in cls.__mro__:
        if c is object:
            continue
        for k, v in sorted(vars(c).items()):
            if isinstance(v, (dict, list, set)) and not k.startswith('__') and k != '_abc_impl':
                res.append('%s.%s:%d' % (c.__name__, k, len(v)))
    return res


def concrete(a, pool, strategy_cls=None, obs=None):
    """abstract call record -> (keyword arguments of research.backtest, fingerprints of the argument objects at
    their creation)"""
    out = a.get('out', 'ok')
    ex = EXN[a['ex']]
    if strategy_cls is not None:
        cls = strategy_cls
    elif obs is not None:
        cls = make_strategy({'out': out}, obs)
    else:
        cls, _ = pool.get(('cls', out), lambda: make_strategy({'out': out}))
    pool.classes.add(id(cls))
    config = {'starting_balance': BAL[a['bal']], 'fee': FEE[a['fee']], 'type': 'futures' if a['typ'] == 'fut' else 'spot',
              'futures_leverage': LEV[a['lev']], 'futures_leverage_mode': MODE[a['mode']], 'exchange': ex,
              'warm_up_candles': WARM[a['warm']][0]}
    if out == 'cfgerr':
        del config['fee']
    trading, data = ROUTES[a['rt']]
    routes = [{'exchange': ex, 'strategy': cls, 'symbol': s, 'timeframe': tf} for s, tf in trading]
    if out == 'routes':
        routes.append(dict(routes[0]))
    symbols = []
    for s, _ in trading + data:
        if s not in symbols:
            symbols.append(s)
    nwarm = WARM[a['warm']][1]
    spacing = 2 * MIN if out == 'spacing' else MIN

    def series(j):
        return walk(nwarm + N_MIN, pool.seed * 7919 + j * 131 + 17, start=100 + 40 * j, ts0=T0 - nwarm * MIN, spacing=spacing)

    def mk_candles():
        return {'%s-%s' % (ex, s): {'exchange': ex, 'symbol': s, 'candles': series(j)[nwarm:].copy()}
                for j, s in enumerate(symbols)}

    def mk_warm():
        if out == 'warmup':               # an empty warm-up series (also when the configuration has no warm-up)
            return {'%s-%s' % (ex, s): {'exchange': ex, 'symbol': s, 'candles': np.zeros((0, 6))} for s in symbols}
        if not nwarm:
            return None
        return {'%s-%s' % (ex, s): {'exchange': ex, 'symbol': s, 'candles': series(j)[:nwarm].copy()}
                for j, s in enumerate(symbols)}
    kw, created = {}, {}
    kw['candles'], created['candles'] = pool.get(('candles', ex, a['rt'], a['warm'], spacing), mk_candles)
    kw['warmup_candles'], created['warmup_candles'] = pool.get(('warm', ex, a['rt'], a['warm'], spacing, out == 'warmup'), mk_warm)
    kw['data_routes'], created['data_routes'] = pool.get(
        ('data', ex, a['rt']), lambda: [{'exchange': ex, 'symbol': s, 'timeframe': tf} for s, tf in data])
    n = len(pool.objs)
    kw['config'], created['config'] = pool.get(('config', repr(sorted(config.items()))), lambda: config)
    kw['routes'], created['routes'] = pool.get(('routes', n) if obs is not None or strategy_cls is not None
                                               else ('routes', ex, a['rt'], out), lambda: routes)
    kw['hyperparameters'], created['hyperparameters'] = pool.get(
        ('hp', a.get('hp', 'full')), lambda: None if HP[a.get('hp', 'full')] is None else dict(HP[a.get('hp', 'full')]))
    kw['fast_mode'] = (a['sim'] == 'fast')
    kw['flags'] = dict(GEN[a.get('gen', 'none')])
    return kw, created


# ---------------------------------------------------------------- fingerprints (deep equality of arguments)
def fingerprint(x, pool=None):
    h = hashlib.sha1()

    def feed(v):
        if isinstance(v, np.ndarray):
            h.update(b'nd' + str(v.shape).encode() + str(v.dtype).encode() + np.ascontiguousarray(v).tobytes())
        elif isinstance(v, dict):
            h.update(b'{')
            for k in v:                      # insertion order is part of a dict's observable state
                feed(k)
                feed(v[k])
            h.update(b'}')
        elif isinstance(v, (list, tuple)):
            h.update(b'[' if isinstance(v, list) else b'(')
            for i in v:
                feed(i)
            h.update(b']')
        elif isinstance(v, type):
            # a class: its name, whether it is one of the class objects the harness handed over (identity),
            # the names of its attributes and the values of the plain-data ones
            h.update(b'cls' + v.__qualname__.encode())
            h.update(b'known' if pool is None or id(v) in pool.classes else b'replaced')
            for k in sorted(vars(v)):
                a = vars(v)[k]
                h.update(k.encode())
                if not callable(a) and not isinstance(a, (staticmethod, classmethod, property)) and not k.startswith('_'):
                    h.update(repr(a).encode())
        else:
            h.update(type(v).__name__.encode() + b':' + repr(v).encode())
    feed(x)
    return h.hexdigest()[:16]


ARG_NAMES = ('config', 'routes', 'data_routes', 'candles', 'warmup_candles', 'hyperparameters')


def fingerprints(kw, pool=None):
    return {k: fingerprint(kw[k], pool) for k in ARG_NAMES}


# ---------------------------------------------------------------- running calls
def call(kw):
    from jesse.research import backtest
    return backtest(kw['config'], kw['routes'], kw['data_routes'], kw['candles'], warmup_candles=kw['warmup_candles'],
                    hyperparameters=kw['hyperparameters'], fast_mode=kw['fast_mode'], **kw.get('flags', {}))


def run_history_call(a, pool):
    """an earlier session: plain research.backtest, nothing instrumented.  Returns (exception class or 'none',
    keyword arguments, fingerprints at creation)."""
    kw, created = concrete(a, pool)
    try:
        call(kw)
        return 'none', kw, created
    except BaseException as e:           # noqa - whatever the session raises, the process goes on (as a notebook would)
        return type(e).__name__, kw, created


def r(x):
    """canonical text of a number (TLC compares texts; equal floats <=> equal texts, nan = nan)"""
    if isinstance(x, (bool, np.bool_)):
        return str(bool(x))
    if isinstance(x, (int, np.integer)):
        return str(int(x))
    if isinstance(x, (float, np.floating)):
        return repr(float(x))
    if x is None:
        return 'None'
    return str(x)


def text_or_digest(v):
    t = repr(v)
    return t if len(t) <= 120 else 'sha1:' + hashlib.sha1(t.encode()).hexdigest()[:16] + ':len%d' % len(t)


def capture(final):
    from jesse.store import store
    trades = []
    for t in store.completed_trades.trades:
        rate = t.fee / (t.qty * (t.entry_price + t.exit_price)) if t.qty else 0.0
        trades.append(dict(type=str(t.type), qty=r(t.qty), entry=r(t.entry_price), exit=r(t.exit_price),
                           opened=int(t.opened_at - T0) // MIN, closed=int(t.closed_at - T0) // MIN,
                           fee=r(t.fee), pnl=r(t.pnl), fee_rate=r(round(rate, 12))))
    orders = []

    def add(o, where):
        orders.append(dict(sym=o.symbol, side=str(o.side), type=str(o.type), qty=r(o.qty), price=r(o.price),
                           status=str(o.status), ro=bool(o.reduce_only), where=where,
                           created=int(o.created_at - T0) // MIN if o.created_at else -1,
                           executed=int(o.executed_at - T0) // MIN if o.executed_at else -1))
    for i, t in enumerate(store.completed_trades.trades):      # orders of closed trades leave the order store
        for o in t.orders:
            add(o, 'trade')
    for key, lst in store.orders.storage.items():
        for o in lst:
            add(o, 'store')
    bal = []
    for name, e in store.exchanges.storage.items():
        bal.append(dict(ex=name, type=str(e.type), assets=[[k, r(v)] for k, v in sorted(e.assets.items())]))
    final.update(trades=trades, orders=orders, balances=bal)


def run_probe(a, pool):
    """the probe call, instrumented: what the strategy saw, orders/trades/balances before the final reset,
    the returned value, and fingerprints of the argument objects before and after."""
    obs, final = {}, {}
    kw, before = concrete(a, pool, obs=obs)
    from jesse.modes import backtest_mode as bm
    orig = bm._generate_outputs

    def go(*x, **k):
        try:
            capture(final)
        except Exception as e:
            final['capture_error'] = repr(e)
        return orig(*x, **k)
    bm._generate_outputs = go
    rec = {}
    try:
        res = call(kw)
        rec['exc'] = 'none'
        m = res.get('metrics') or {}
        rec['metrics'] = [[str(k), r(v)] for k, v in sorted(m.items())]
        rec['result_keys'] = sorted(res.keys())
        # the whole returned dict: every key other than 'metrics' with the text (short) or digest (long) of its value
        rec['result_items'] = ['%s=%s' % (k, text_or_digest(res[k])) for k in sorted(res.keys()) if k != 'metrics']
    except Exception as e:
        rec['exc'] = type(e).__name__
        rec['exc_text'] = str(e)[:200]
        rec['metrics'] = []
        rec['result_keys'] = []
        rec['result_items'] = []
        if 'orders' not in final:
            try:
                capture(final)
            except Exception as e2:
                final['capture_error'] = repr(e2)
    finally:
        bm._generate_outputs = orig
    rec['args_before'] = before
    rec['args_after'] = fingerprints(kw, pool)
    rec['obs'] = obs
    rec['final'] = final
    return rec


def run_item(item):
    """item: dict(hist=[abstract calls], probe=abstract call, seed=int).  Executed in a forked child."""
    import jesse.helpers as jh
    pre = sorted(k for k in jh.CACHED_CONFIG if k.startswith(('env.exchanges', 'env.data', 'app.')))
    if pre or 'jesse.services.api' in sys.modules:
        return {'dirty_parent': pre + (['api'] if 'jesse.services.api' in sys.modules else [])}
    # every process gets its own working directory (jesse writes storage/ there; concurrent children sharing one
    # directory race in jh.make_directory); the calls of one history share it, as they would in reality
    import tempfile
    os.chdir(tempfile.mkdtemp(prefix='c11-', dir=os.getcwd()))
    pool = ArgPool(item.get('seed', 0))
    excs, calls = [], []
    for i, a in enumerate(item['hist']):
        e, kw, created = run_history_call(a, pool)
        excs.append(e)
        calls.append((kw, created))
    rec = run_probe(item['probe'], pool)
    rec['hist_exc'] = excs
    # the arguments of the earlier calls, looked at again now that everything has run
    rec['hist_args_before'] = ['%d:%s=%s' % (i, k, c[k]) for i, (kw, c) in enumerate(calls) for k in ARG_NAMES]
    rec['hist_args_after'] = ['%d:%s=%s' % (i, k, fingerprint(kw[k], pool)) for i, (kw, c) in enumerate(calls) for k in ARG_NAMES]
    return rec


def preimport():
    """import everything a session needs WITHOUT running one: no Broker (jesse.services.api stays unimported),
    no config key read."""
    import jesse.helpers as jh
    import jesse.research, jesse.modes.backtest_mode, jesse.strategies, jesse.services.metrics  # noqa
    import jesse.services.broker, jesse.exchanges, jesse.store, jesse.routes  # noqa
    assert 'jesse.services.api' not in sys.modules
    return sorted(jh.CACHED_CONFIG)
