"""In-vivo drivers shared by C01 (no look-ahead, paired runs) and C12 (fast == normal simulator).

One *item* is a JSON-serialisable description of a single real `research.backtest` call (configuration, routes,
candle seeds, optional cut/tail for the sibling run, policy).  `run_item(item)` executes it in the current process
(used inside forked children via `session.run_isolated`) and returns the recorded observation sequence plus the
final store snapshot, already encoded for TLC (ints / strings only; floats as float.hex()).

Nothing here judges anything: it drives, records and encodes."""
import random, signal
import numpy as np
from .. import session as S

RUN_TIMEOUT = 60          # seconds per real backtest (a normal run takes < 1 s); a seeded change can make jesse loop forever


class HarnessTimeout(BaseException):
    """raised by SIGALRM inside a run; BaseException so that jesse's `except Exception` blocks do not swallow it"""


def _on_alarm(sig, frm):
    raise HarnessTimeout()

TFM = {'1m': 1, '3m': 3, '5m': 5, '15m': 15, '30m': 30, '45m': 45, '1h': 60, '2h': 120, '4h': 240}
SYMS = ['BTC-USDT', 'ETH-USDT']


def hx(x):
    """exact, tolerance-free text of a number (both runs of a pair are bit-deterministic)"""
    if x is None:
        return 'None'
    if isinstance(x, (bool, np.bool_)):
        return 'T' if x else 'F'
    if isinstance(x, str):
        return x
    try:
        return repr(float(x))      # shortest round-trip repr: equal texts <=> equal doubles (as exact as float.hex())
    except Exception:
        return 'X:' + type(x).__name__


def row_hex(row):
    return str(tmin(row[0])) + '|' + '|'.join(repr(float(v)) for v in row[1:])


BASE = [S.T0]             # timestamp of the session's first 1m candle (item['ts_off'] minutes after T0)


def tmin(ts):
    return int((int(ts) - BASE[0]) // S.MIN)


# ------------------------------------------------------------------------------------------------ inputs
def build_candles(item):
    """{symbol: ndarray} for the trading period (+ warm-up dict or None).  side 'B' = same series with every candle
    from index `cut` on replaced by another valid lattice walk (timestamps kept)."""
    w = item.get('walk', {})
    out, warm = {}, {}
    nall = item['nsym'] + (1 if item.get('dsym') else 0)      # a data-only symbol (never traded) gets its own series
    for si in range(nall):
        sym = SYMS[si]
        t0 = S.T0 + int(item.get('ts_off', 0)) * S.MIN          # the session may start off every timeframe boundary
        a = S.lattice_walk(item['n'], item['seed'] * 131 + si, start=w.get('start', 100), step=w.get('step', 2),
                           wick=w.get('wick', 2), flat_p=w.get('flat_p', 0.15), gap_p=w.get('gap_p', 0.1), ts0=t0)
        inject_empty_minutes(a, item.get('flats', []), item.get('zerovol', []), item['seed'] * 17 + si)
        if item.get('side') == 'B':
            t = item['cut']
            r = random.Random(item['tail_seed'] * 977 + si)
            start = max(30, int(a[t - 1][2]) + r.randint(-4, 4)) if t > 0 else w.get('start', 100) + r.randint(-4, 4)
            tail = S.lattice_walk(item['n'] - t, item['tail_seed'] * 131 + 7 + si, start=start,
                                  step=w.get('step', 2) + r.randint(0, 2), wick=w.get('wick', 2) + r.randint(0, 2),
                                  flat_p=w.get('flat_p', 0.15), gap_p=0.3)
            tail[:, 0] = a[t:, 0]
            tflats = [k for k in range(2, len(tail) - 2) if r.random() < 0.03]
            inject_empty_minutes(tail, tflats, [], item['tail_seed'] * 19 + si)
            if tail[0][1] == a[t][1]:          # the first candle after the cut differs already in its open
                tail[0][1] += 1.0
                tail[0][3] = max(tail[0][3], tail[0][1])
            a = a.copy()
            a[t:] = tail
        out[sym] = a
        if item.get('warm'):
            W = item['warm']
            warm[sym] = S.lattice_walk(W, item['seed'] * 131 + 50 + si, start=w.get('start', 100), step=w.get('step', 2),
                                       wick=w.get('wick', 2), ts0=t0 - W * S.MIN)
    return out, (warm or None)


def inject_empty_minutes(c, flats, zerovol, seed):
    """in place: minute i in `flats` becomes a flat ZERO-VOLUME candle repeating the previous close (what jesse's own gap
    filler produces for a minute without trades) and the next minute opens with a gap; minutes in `zerovol` keep their
    shape but get volume 0"""
    r = random.Random(seed)
    n = len(c)
    for i in sorted(flats):
        if i < 1 or i + 1 >= n:
            continue
        p = c[i - 1][2]
        c[i][1:] = [p, p, p, p, 0.0]
        o = max(21.0, p + r.choice([-3, -2, -1, 1, 2, 3]))
        nx = c[i + 1]
        nx[1] = o
        nx[3] = max(nx[3], o)
        nx[4] = min(nx[4], o)
    for i in zerovol:
        if 0 <= i < n:
            c[i][5] = 0.0


def config_of(item):
    if item['typ'] == 'futures':
        return S.futures_config(balance=item.get('balance', 100000), fee=item.get('fee', 0.0), lev=item.get('lev', 2),
                                mode=item.get('levmode', 'cross'), warmup=item.get('warm_cfg', 0))
    return S.spot_config(balance=item.get('balance', 100000), fee=item.get('fee', 0.0), warmup=item.get('warm_cfg', 0))


def readable(item):
    tfs = []
    for tf in ['1m', item['ttf']] + list(item.get('dtfs', [])):
        if tf not in tfs:
            tfs.append(tf)
    res = [(SYMS[si], tf) for si in range(item['nsym']) for tf in tfs]
    for sym, tf in item.get('dsym', []):          # a symbol that is ONLY a data route: its 1m candles and its own timeframe
        res += [(sym, '1m'), (sym, tf)]
    return res


def field_names(item):
    """names of the positional fields of every event kind (the trace spec reports the first differing one)"""
    reads = []
    for sym, tf in readable(item):
        reads += ['rows:%s:%s' % (sym, tf), 'last:%s:%s' % (sym, tf)]
    base = ['hook', 'route', 'index', 'price', 'pos_qty', 'pos_entry', 'balance', 'margin']
    return {'obs': base + reads, 'obs0': base,
            'submit': ['oid', 'symbol', 'side', 'type', 'qty', 'price', 'reduce_only', 'in_fill'],
            'reject': ['symbol', 'side', 'type', 'qty', 'price', 'exception'],
            'exec': ['oid', 'symbol', 'side', 'type', 'qty', 'price', 'reduce_only'],
            'cancel': ['oid', 'symbol'],
            'exc': ['class']}


# ------------------------------------------------------------------------------------------------ recording
class SimRec(S.Recorder):
    """wrappers around Order.__init__/execute/cancel only; observations and order events share one sequence"""

    def __init__(self, item):
        super().__init__()
        self.item = item
        self.seq = []
        self.n_orders = 0
        self.reads = readable(item)
        self.fills = []          # effective executions, in execution order (C12)
        self.hooks = []          # position hooks: name, minute, price seen, inside-chunk-gap flag (C12 classification)
        self.cread = []          # what a candle-reading policy read: minute, timeframe, value (C12)
        self.cand = None         # the raw input series (research.backtest works on a deep copy)
        self.chunk = 1

    def now(self):
        from jesse.store import store
        return tmin(store.app.time)

    def install(self):
        from jesse.models import Order
        rec = self

        def post_init(tok, r, e, self_, *a, **k):
            if e is not None:
                f = [hx(getattr(self_, 'symbol', None)), hx(getattr(self_, 'side', None)), hx(getattr(self_, 'type', None)),
                     hx(getattr(self_, 'qty', None)), hx(getattr(self_, 'price', None)), type(e).__name__]
                rec.seq.append({'t': rec.now(), 'k': 'reject', 'f': f, 'h': [], 'ct': 0, 'cd': 0})
                return
            rec.n_orders += 1
            self_._v_n = rec.n_orders
            self_._v_ct = rec.now()
            self_._v_cd = 1 if rec.depth > 0 else 0
            f = [str(self_._v_n), self_.symbol, self_.side, self_.type, hx(self_.qty), hx(self_.price),
                 hx(bool(self_.reduce_only)), str(self_._v_cd)]
            rec.seq.append({'t': rec.now(), 'k': 'submit', 'f': f, 'h': [], 'ct': self_._v_ct, 'cd': self_._v_cd})

        self._wrap(Order, '__init__', post=post_init)

        def pre_exec(self_, *a, **k):
            return {'status': self_.status}

        def post_exec(tok, r, e, self_, *a, **k):
            if tok['status'] != 'ACTIVE' or self_.status == tok['status']:
                return                      # a call on a final order is a no-op (C05), not an observable
            f = [str(getattr(self_, '_v_n', 0)), self_.symbol, self_.side, self_.type, hx(self_.qty), hx(self_.price),
                 hx(bool(self_.reduce_only))]
            rec.seq.append({'t': rec.now(), 'k': 'exec', 'f': f, 'h': [], 'ct': getattr(self_, '_v_ct', 0),
                            'cd': getattr(self_, '_v_cd', 0)})
            rec.fills.append({'side': self_.side, 'type': self_.type, 'qty': hx(self_.qty), 'price': hx(self_.price),
                              'minute': tmin(self_.executed_at) if self_.executed_at else -1,
                              'ro': bool(self_.reduce_only)})

        self._wrap(Order, 'execute', pre=pre_exec, post=post_exec)

        def pre_cancel(self_, *a, **k):
            return {'status': self_.status}

        def post_cancel(tok, r, e, self_, *a, **k):
            if tok['status'] != 'ACTIVE' or self_.status == tok['status']:
                return
            rec.seq.append({'t': rec.now(), 'k': 'cancel', 'f': [str(getattr(self_, '_v_n', 0)), self_.symbol], 'h': [],
                            'ct': 0, 'cd': 0})

        self._wrap(Order, 'cancel', pre=pre_cancel, post=post_cancel)
        return self

    # strategy callback (make_policy_strategy(observe=...))
    def observe(self, st, hook, order=None):
        pos = st.position
        try:
            margin = hx(st.available_margin)
        except Exception as e:
            margin = 'EXC:' + type(e).__name__
        f = [hook, st.symbol, str(st.index), hx(st.price), hx(pos.qty), hx(pos.entry_price), hx(st.balance), margin]
        h = []
        kind = 'obs0'
        if hook != 'after':
            kind = 'obs'
            for sym, tf in self.reads:
                try:
                    c = st.get_candles(st.exchange, sym, tf)
                    n = len(c)
                    f.append(str(n))
                    if n:
                        f.append(row_hex(c[-1]))
                        h.append(tmin(c[-1][0]))
                    else:
                        f.append('empty')
                except Exception as e:
                    f += ['EXC:' + type(e).__name__, 'EXC:' + type(e).__name__]
        self.seq.append({'t': tmin(st.time), 'k': kind, 'f': f, 'h': h, 'ct': 0, 'cd': 0})
        if hook.startswith('on_') and self.cand is not None:
            i = tmin(st.time) - 1                      # index of the minute the hook runs in
            c = self.cand.get(st.symbol)
            ig = 0
            if c is not None and 0 < i < len(c) and i % self.chunk != 0 and c[i][1] != c[i - 1][2]:
                ig = 1
            self.hooks.append({'h': hook, 't': tmin(st.time), 'p': hx(st.price), 'ig': ig})


def make_candle_policy(item, rec):
    """policy family whose ENTRY decisions are functions of the candles the strategy can read (trading timeframe and every
    data route): whether to enter at all and where the entry rows are placed depend on open/high/low/close of the last
    two rows of each readable timeframe.  Still a deterministic function of observables only."""
    base = S.make_policy_strategy(item['policy'], observe=rec.observe)
    tfs = []
    for tf in [item['ttf']] + list(item.get('dtfs', [])):
        if tf not in tfs:
            tfs.append(tf)

    class CandlePolicy(base):
        def _read(self):
            tot = 0
            for tf in tfs:
                try:
                    c = self.get_candles(self.exchange, self.symbol, tf)
                    v = int(round(float(c[-2:, 1:5].sum()))) if len(c) else 0
                except Exception as e:          # e.g. a bigger timeframe before its first candle
                    v = -1
                rec.cread.append({'t': tmin(self.time), 'tf': tf, 'v': v})
                tot += v
            return tot

        def should_long(self):
            if not super().should_long():
                return False
            self._v = self._read()
            return self._v % 3 != 0

        def should_short(self):
            if not super().should_short():
                return False
            self._v = self._read()
            return self._v % 3 != 1

        def _shift(self, rows):
            k = (getattr(self, '_v', 0) // 3) % 3 - 1
            tick = self.POLICY['tick']
            return [(q, p + k * tick) for q, p in rows]

        def go_long(self):
            super().go_long()
            self.buy = self._shift(self.buy)

        def go_short(self):
            super().go_short()
            self.sell = self._shift(self.sell)

    return CandlePolicy


def make_mark_policy(base, rec):
    """wraps a policy class: inside on_open_position / on_increased_position it reads values that depend on the position's
    MARK price (position.pnl, available margin) and feeds them into the take-profit it declares there.  Both simulators
    must have marked the position to the fill price before the hook runs."""
    class MarkPolicy(base):
        def _mark(self):
            try:
                v = float(self.position.pnl)
                if self.exchange_type == 'futures':
                    v += float(self.available_margin)
            except Exception:
                v = -1.0
            v = int(round(v * 16))
            rec.cread.append({'t': tmin(self.time), 'tf': 'mark-price-in-hook', 'v': v})
            if self.take_profit is not None and self.position.qty != 0:
                k = v % 3
                sign = 1 if self.position.qty > 0 else -1
                arr = np.array(self.take_profit, dtype=float).reshape(-1, 2)
                self.take_profit = [(float(q), float(p) + sign * k * self.POLICY['tick']) for q, p in arr]

        def on_open_position(self, order):
            super().on_open_position(order)
            self._mark()

        def on_increased_position(self, order):
            super().on_increased_position(order)
            self._mark()

    return MarkPolicy


def strategy_class(item, rec):
    cls = make_candle_policy(item, rec) if item.get('candle_policy') else None
    if item.get('mark_policy'):
        cls = make_mark_policy(cls or S.make_policy_strategy(item['policy'], observe=rec.observe), rec)
    return cls


def routes_of(item):
    routes = [{'symbol': SYMS[si], 'timeframe': item['ttf']} for si in range(item['nsym'])]
    data = [{'symbol': SYMS[si], 'timeframe': tf} for si in range(item['nsym']) for tf in item.get('dtfs', [])]
    data += [{'symbol': sym, 'timeframe': tf} for sym, tf in item.get('dsym', [])]
    return routes, data


def run_item(item):
    """one real backtest; returns dict(seq, fills, trades, balances, liq, exc, n_orders) - all TLC-readable"""
    cand, warm = build_candles(item)
    BASE[0] = S.T0 + int(item.get('ts_off', 0)) * S.MIN
    rec = SimRec(item).install()
    rec.cand = cand
    rec.chunk = int(item.get('chunk', 1) or 1)
    old = signal.signal(signal.SIGALRM, _on_alarm)
    signal.alarm(RUN_TIMEOUT)
    try:
        routes, data = routes_of(item)
        out = S.run_backtest(item['policy'], config_of(item), cand, routes=routes, data_routes=data,
                             fast=(item['mode'] == 'fast'), observe=rec.observe, warmup=warm,
                             strategy_cls=strategy_class(item, rec))
    except HarnessTimeout:
        out = {'exc': 'HarnessTimeout: the backtest did not finish within %d s' % RUN_TIMEOUT, 'final': None}
        del rec.seq[5000:]
        del rec.fills[5000:]
        del rec.hooks[5000:]
        del rec.cread[20000:]
    finally:
        signal.alarm(0)
        signal.signal(signal.SIGALRM, old)
        rec.uninstall()
    exc = 'none'
    if out['exc']:
        exc = out['exc'].split(':')[0]
        rec.seq.append({'t': rec.now(), 'k': 'exc', 'f': [exc], 'h': [], 'ct': 0, 'cd': 0})
    fin = out.get('final') or {}
    trades = []
    for t in fin.get('trades', []):
        trades.append([t['sym'], t['type'], hx(t['qty']), hx(t['entry']), hx(t['exit']), hx(t['pnl']), hx(t['fee']),
                       str(tmin(t['opened_at'])), str(tmin(t['closed_at'])), str(len(t['orders']))])
    bal = []
    for name, a in sorted((fin.get('accts') or {}).items()):
        for asset, v in sorted(a['assets'].items()):
            bal.append([asset, hx(v)])
    return {'seq': rec.seq, 'fills': rec.fills, 'hooks': rec.hooks, 'reads': rec.cread, 'trades': trades, 'bal': bal,
            'liq': int(fin.get('liquidations', 0) or 0), 'exc': exc, 'exc_text': (out['exc'] or '')[:200],
            'n_orders': rec.n_orders, 'capture_error': fin.get('capture_error', '')}


def warm_parent():
    """import jesse and run one throw-away session in the parent so that forked children start warm (first call
    costs ~6 s of lazy imports); process state is reset afterwards and before every run (session.run_backtest)."""
    item = dict(mode='step', typ='futures', nsym=1, ttf='3m', dtfs=[], n=30, seed=1, policy={'seed': 1}, warm=0)
    run_item(item)
    run_item(dict(item, mode='fast', typ='spot', policy={'seed': 1, 'spot': True}))
    S.reset_process_state()
