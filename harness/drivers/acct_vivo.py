"""In-vivo binding for C03 / C04 / C05: real `research.backtest` runs (real Strategy class, both simulators) with
setattr wrappers around Order.__init__ / OrdersState.add_order / Order.execute / Order.cancel /
Strategy._on_updated_position.  Every order call becomes one event with the state observed BEFORE it (`pre`) and after
its own effect (`post`: for a fill, the state at the moment the strategy hook is entered, so that what the strategy
does inside the hook - cancelling, submitting exits - appears as the following events).  The traces are judged by
TraceFutures.tla / TraceSpot.tla exactly like the object-level ones (hdr.haspre = TRUE, CancelOnClose = FALSE because
the strategy layer's cancellations are explicit events here)."""
from ..core import Machinery
from . import acct


class VivoRecorder:
    def __init__(self, kind, ex, syms, K):
        self.kind, self.ex, self.syms, self.K = kind, ex, syms, K
        self.orders, self.ordinal = [], {}
        self.ev = []
        self.init = None
        self._orig = []
        self._pending_submit = {}      # id(order) -> pre snapshot taken when the constructor was entered
        self._open_exec = []           # stack of [order, pre, emitted]
        self._cache = {}
        self._last_post = None
        self.liquidations = 0

    def snap(self):
        return acct.snapshot_from_store(self.kind, self.ex, self.syms, self.K, self.orders, self.ordinal, cache=self._cache)

    def emit(self, ev, pre, post):
        if self.init is None:
            self.init = pre
        if self._last_post is not None and pre == self._last_post:
            pre = self._last_post           # same object: not stored twice
        if post == pre:
            post = pre
        self._last_post = post
        ev["pre"], ev["post"] = pre, post
        ev.setdefault("exc", "none")
        self.ev.append(ev)

    def observe(self, name):
        """an observation point between order calls (strategy hooks, trade boundaries): what `store.orders` reports there"""
        # every hook of every route is an observation point (also before/after/update_position of the OTHER routes in
        # the same tick); an observation that shows nothing new since the last logged state is not recorded
        try:
            s = self.snap()
        except Exception:
            return
        if self._last_post is not None and s == self._last_post:
            return                          # nothing changed since the last call: already judged
        self.emit({"k": "obs", "at": name}, s, s)

    def _wrap(self, obj, name, make):
        orig = getattr(obj, name)
        setattr(obj, name, make(orig))
        self._orig.append((obj, name, orig))

    def uninstall(self):
        for obj, name, orig in reversed(self._orig):
            setattr(obj, name, orig)
        self._orig = []

    def install(self):
        from jesse.models import Order
        from jesse.store.state_orders import OrdersState
        from jesse.strategies import Strategy
        from jesse import exceptions
        rec = self
        rtyp = {v: k for k, v in acct.TYP.items()}

        def order_fields(o):
            return dict(k="submit", sym=acct.RSYM.get(o.symbol, o.symbol), side=o.side, typ=rtyp.get(o.type, o.type),
                        q=acct.units(abs(o.qty), 1 if rec.kind == "futures" else rec.K), p=acct.units(o.price, 1),
                        ro=bool(o.reduce_only))

        def mk_init(orig):
            def w(self_, *a, **k):
                try:
                    pre = rec.snap()
                except Exception:
                    pre = None                      # store not ready (orders created outside a session)
                try:
                    r = orig(self_, *a, **k)
                except (exceptions.InsufficientMargin, exceptions.InsufficientBalance):
                    if pre is not None:
                        rec.emit(dict(order_fields(self_), acc=False), pre, pre)
                    raise
                if pre is not None:
                    rec._pending_submit[id(self_)] = pre
                return r
            return w
        self._wrap(Order, "__init__", mk_init)

        def mk_add(orig):
            def w(self_, order, *a, **k):
                r = orig(self_, order, *a, **k)
                pre = rec._pending_submit.pop(id(order), None)
                if pre is not None and order.exchange == rec.ex:
                    rec.ordinal[id(order)] = len(rec.orders) + 1
                    rec.orders.append(order)
                    rec.emit(dict(order_fields(order), acc=True), pre, rec.snap())
                return r
            return w
        self._wrap(OrdersState, "add_order", mk_add)

        def mk_exec(orig):
            def w(self_, *a, **k):
                if id(self_) not in rec.ordinal:
                    return orig(self_, *a, **k)
                frame = [self_, rec.snap(), False]
                rec._open_exec.append(frame)
                try:
                    return orig(self_, *a, **k)
                finally:
                    rec._open_exec.pop()
                    if not frame[2]:                # no strategy hook was reached (final order, no position object)
                        rec.emit({"k": "exec", "id": rec.ordinal[id(self_)]}, frame[1], rec.snap())
            return w
        self._wrap(Order, "execute", mk_exec)

        def mk_hook(orig):
            def w(self_, order, *a, **k):
                if rec._open_exec and rec._open_exec[-1][0] is order and not rec._open_exec[-1][2]:
                    frame = rec._open_exec[-1]
                    frame[2] = True
                    rec.emit({"k": "exec", "id": rec.ordinal[id(order)]}, frame[1], rec.snap())
                return orig(self_, order, *a, **k)
            return w
        self._wrap(Strategy, "_on_updated_position", mk_hook)

        def mk_cancel(orig):
            def w(self_, *a, **k):
                if id(self_) not in rec.ordinal:
                    return orig(self_, *a, **k)
                pre = rec.snap()
                try:
                    return orig(self_, *a, **k)
                finally:
                    rec.emit({"k": "cancel", "id": rec.ordinal[id(self_)]}, pre, rec.snap())
            return w
        self._wrap(Order, "cancel", mk_cancel)

        def mk_liq(orig):
            # isolated margin: the simulator creates, registers and executes a liquidation order itself.  Right after that
            # jesse-internal call the recorder injects what C05 quantifies over: a repeated execute() and a late cancel()
            # on that (final) order - both must be no-ops - through the wrapped methods, so they are ordinary events
            def w(*a, **k):
                n0 = len(rec.orders)
                r = orig(*a, **k)
                for o in rec.orders[n0:]:
                    rec.liquidations += 1
                    o.execute()
                    o.cancel()
                return r
            return w
        from jesse.modes import backtest_mode as bm
        self._wrap(bm, "_check_for_liquidations", mk_liq)
        return self


def make_strategy(policy, rec):
    """policy strategy of harness.session plus the situations in which jesse itself calls execute()/cancel() on orders
    that are already final:
      * two MARKET exits pending together (stop-loss and take-profit both at the current price): the first fill closes
        the position, Strategy._execute_cancel cancels the second, execute_pending_market_orders then executes the
        CANCELED order;
      * a MARKET exit submitted inside on_open/on_reduced_position while a candle is being matched: the matching
        loop re-selects and executes it at once, the pending-queue flush executes the EXECUTED order again.
    Every hook is an observation point for the order registries (after reset_trade_orders, at trade boundaries)."""
    import random
    from .. import session
    base = session.make_policy_strategy(policy, observe=lambda st, name, order: rec.observe(name))
    pd, ph = policy.get("p_double_market_exit", 0.0), policy.get("p_market_exit_in_hook", 0.0)
    pc = policy.get("p_cancel_all_routes", 0.0)

    class VivoStrategy(base):
        def _rr(self, hook):
            return random.Random(session._h(policy.get("seed", 0), "vivo", hook, self.index, self.symbol))

        def update_position(self):
            if abs(self.position.qty) >= 2 and self._rr("upd").random() < pd:
                q = abs(self.position.qty)
                # (jesse refuses identical stop-loss and take-profit: the take-profit is split in two rows)
                self.stop_loss = q, self.price
                self.take_profit = [(1, self.price), (q - 1, self.price)]
                rec.observe("double_market_exit")
                return
            super().update_position()

        def on_open_position(self, order):
            super().on_open_position(order)
            if self._rr("open").random() < ph:
                self.take_profit = abs(self.position.qty), self.price

        def on_reduced_position(self, order):
            super().on_reduced_position(order)
            if self.position.qty != 0 and self._rr("red").random() < ph:
                self.take_profit = abs(self.position.qty), self.price

        def on_cancel(self):
            rec.observe("on_cancel")

        def before(self):
            # one route cancels everything of EVERY route (also market entries of earlier routes that are still pending)
            if pc and self._rr("call").random() < pc:
                from jesse.routes import router
                for r in router.routes:
                    if r.strategy is not None:
                        r.strategy.broker.cancel_all_orders()
                rec.observe("cancel_all_routes")
            super().before()

    return VivoStrategy


def run_one(arg):
    """(id, kind, policy, config-args, candle-args, fast) -> trace; module level for run_isolated"""
    tid, kind, policy, cfgargs, cargs, fast = arg
    from .. import session
    syms = cargs["syms"]
    fee = cfgargs["fee"]
    if kind == "futures":
        config = session.futures_config(balance=cfgargs["balance"], fee=fee[0] / fee[1], lev=cfgargs["lev"],
                                        mode=cfgargs.get("mode", "cross"))
    else:
        config = session.spot_config(balance=cfgargs["balance"], fee=fee[0] / fee[1])
    candles = {}
    for j, s in enumerate(syms):
        if cargs.get("swing"):
            candles[acct.SYM[s]] = swing_walk(cargs["n"], cargs["seed"] + 17 * j)
        else:
            candles[acct.SYM[s]] = session.lattice_walk(cargs["n"], cargs["seed"] + 17 * j, start=cargs["start"], step=2,
                                                        wick=2, floor=cargs["floor"])
    rec = VivoRecorder(kind, config["exchange"], syms, fee[1]).install()
    try:
        out = session.run_backtest(policy, config, candles, fast=fast, strategy_cls=make_strategy(policy, rec))
    finally:
        rec.uninstall()
    hdr = {"syms": syms, "FeeNum": fee[0], "FeeDen": fee[1], "Start": cfgargs["balance"], "CancelOnClose": False,
           "cur0": {s: 0 for s in syms}, "judgeinit": True, "haspre": True, "fast": bool(fast), "policy": policy.get("seed", 0)}
    if kind == "futures":
        hdr["Lev"] = cfgargs["lev"]
    exc = out.get("exc")
    init = rec.init
    return {"id": tid, "hdr": hdr, "init": init, "ev": rec.ev, "run_exc": exc or "none", "skipped": 0,
            "liquidations": rec.liquidations, "args": [kind, policy, cfgargs, cargs, fast]}


def swing_walk(n, seed):
    """integer-lattice candles that swing between 20 and 60 with one-tick steps and small wicks: a position without a
    stop-loss at leverage 10-20 reaches its liquidation price within a few minutes of an adverse swing"""
    import random
    import numpy as np
    from ..session import T0, MIN
    rng = random.Random(seed)
    c = np.zeros((n, 6))
    p, d = 40, rng.choice([-1, 1])
    for i in range(n):
        o = p
        if p <= 20:
            d = 1
        elif p >= 60:
            d = -1
        elif rng.random() < 0.04:
            d = -d
        cl = p + d * rng.choice([0, 1, 1, 2])
        h = max(o, cl) + rng.randint(0, 1)
        lo = min(o, cl) - rng.randint(0, 1)
        c[i] = [T0 + i * MIN, o, cl, h, lo, rng.randint(1, 100)]
        p = cl
    return c


def liquidation_specs(n, seed, first_id=1, minutes=(90, 120)):
    """isolated-margin futures sessions that reach the liquidation price (policy without stop-loss, leverage 10 / 20)"""
    import random
    rng = random.Random(seed * 7907 + 5)
    out = []
    for i in range(n):
        policy = dict(seed=rng.randrange(10 ** 6), tick=1.0, qtys=(1, 2), entry_every=rng.choice([5, 7]), allow_short=True,
                      spot=False, exits_in="go", p_cancel=0.2, p_edit=0.0, p_liquidate=0.0, p_edit_on_reduced=0.0,
                      no_sl=True, tp_dist=(4, 8), max_entry_rows=1, max_exit_rows=1, entry_offsets=(0, 0, -1, 1))
        cfgargs = {"balance": rng.choice([400, 1000]), "fee": rng.choice([(0, 1), (1, 64)]), "lev": rng.choice([10, 20]),
                   "mode": "isolated"}
        cargs = {"syms": ["A", "B"][:1 + i % 2], "n": rng.choice(list(minutes)), "seed": rng.randrange(10 ** 6), "swing": True}
        out.append((first_id + i, "futures", policy, cfgargs, cargs, bool(i % 2)))
    return out


def specs(kind, n, seed, first_id=1, minutes=(120, 180), multi=False):
    import random
    rng = random.Random(seed * 104729 + (1 if kind == "futures" else 2))
    out = []
    for i in range(n):
        nsym = (2 + (i // 2) % 2 if i % 2 == 0 else 1) if multi else (1 if i % 3 else 2)
        policy = dict(seed=rng.randrange(10 ** 6), tick=1.0, qtys=(1, 2), entry_every=rng.choice([5, 7, 9]),
                      allow_short=(kind == "futures"), spot=(kind == "spot"),
                      exits_in=rng.choice(["go", "on_open", "mixed"]) if kind == "futures" else "on_open",
                      p_cancel=rng.choice([0.1, 0.3, 0.6]), p_edit=0.2,
                      # spot: liquidate() at a loss keeps the resting take-profit LIMIT sells, so its MARKET sell is
                      # rejected by the per-kind rule of C04 and the run ends there - kept rare
                      p_liquidate=0.05 if kind == "futures" else (0.05 if i % 6 == 0 else 0.0),
                      p_edit_on_reduced=0.0,       # that edit derives a price from the average entry (off the integer lattice)
                      p_double_market_exit=rng.choice([0.0, 0.15, 0.3]), p_market_exit_in_hook=rng.choice([0.0, 0.3, 0.6]),
                      p_cancel_all_routes=(rng.choice([0.0, 0.02, 0.05]) if multi else 0.0),
                      oversize_sl=(i % 4 == 0 and kind == "futures"), max_entry_rows=2, max_exit_rows=2)
        fee = rng.choice([(0, 1), (1, 16), (1, 64)])
        cfgargs = {"balance": rng.choice([400, 1000]), "fee": fee, "lev": rng.choice([1, 2, 4]) if kind == "futures" else 1}
        cargs = {"syms": ["A", "B", "C"][:nsym], "n": rng.choice(list(minutes)), "seed": rng.randrange(10 ** 6),
                 "start": rng.choice([24, 30, 40]), "floor": 8}
        fast = bool(i % 2) if not multi else bool((i // 2) % 2 == 0)      # multi: the multi-route runs alternate fast / step
        out.append((first_id + i, kind, policy, cfgargs, cargs, fast))
    return out


def run_many(items, procs=12):
    from ..session import run_isolated
    if not items:
        return []
    res = run_isolated(run_one, items, procs=min(procs, len(items)), chunk=4)
    out = []
    for r in res:
        if isinstance(r, tuple) and r and r[0] == "EXC":
            raise Machinery("in-vivo child failed: %s" % r[1])
        out.append(r)
    return out
