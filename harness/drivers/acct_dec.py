"""C04, decimal lattice: random spot histories with quantities / prices / fees that are not representable in binary,
driven on real objects; the state is logged as scaled integers (money 1e-5, base 1e-7, price 1e-2) and judged step by
step by TraceSpotDec.tla.  Python only drives, rounds and writes JSON."""
import random
from fractions import Fraction
from ..core import Machinery
from ..session import ObjSession, run_isolated

SYM = "BTC-USDT"
MU, BU, PU = 10 ** 5, 10 ** 7, 10 ** 2
ST = {"ACTIVE": "A", "EXECUTED": "E", "CANCELED": "C"}
TYP = {"MARKET": "MKT", "LIMIT": "LMT", "STOP": "STP"}
LIM = 2 ** 31 - 1


def sc(x, per):
    n = int(round(Fraction(float(x)) * per))
    return max(-LIM, min(LIM, n))


class DecSession:
    def __init__(self, hdr):
        from jesse.exchanges import Sandbox
        self.hdr = hdr
        self.sess = ObjSession(typ="spot", fee=hdr["fee_hbp"] / 20000, balance=float(hdr["start"]),
                               symbols=(SYM,), price=hdr["p0"] / 100, cancel_on_close=False)
        self.ex = self.sess.ex
        self.exchange = self.sess.exchange
        self.pos = self.sess.pos[SYM]
        self.sandbox = Sandbox(self.ex)
        self.orders = []

    def snapshot(self):
        e = self.exchange
        return {"quote": sc(e.assets[e.settlement_currency], MU), "base": sc(e.assets["BTC"], BU),
                "pos": sc(self.pos.qty, BU), "posx": float(self.pos.qty).hex(), "basex": float(e.assets["BTC"]).hex(),
                "stopSum": sc(e.stop_orders_sum.get(SYM, 0), BU),
                "limitSum": sc(e.limit_orders_sum.get(SYM, 0), BU),
                "ord": [{"side": o.side, "typ": TYP.get(o.type, o.type), "q": sc(abs(o.qty), BU), "p": sc(o.price, PU),
                         "ro": bool(o.reduce_only), "st": ST.get(str(o.status).upper(), str(o.status))} for o in self.orders]}

    def qty_of(self, op):
        if op["qmode"] == "rest":          # what is held minus the resting sells of that kind (decimal-exact difference)
            from decimal import Decimal
            kind = "STOP" if op["typ"] == "STP" else "LIMIT"
            rest = Decimal(str(self.exchange.assets["BTC"]))
            for o in self.orders:
                if o.is_active and o.side == "sell" and o.type == kind:
                    rest -= Decimal(str(abs(o.qty)))
            return float(rest)
        if op["qmode"] == "all":
            return self.pos.qty
        if op["qmode"] == "half":
            return round(self.pos.qty / 2, 3)
        return float(op["qlit"])

    def apply(self, op):
        from jesse import exceptions
        from jesse.enums import order_types
        k = op["op"]
        ev = {"k": k, "exc": "none"}
        try:
            if k == "submit":
                q = self.qty_of(op)
                p = self.pos.current_price if op["typ"] == "MKT" else float(op["plit"])
                ev.update(side=op["side"], typ=op["typ"], ro=op["ro"], q=sc(abs(q), BU), p=sc(p, PU), acc=True,
                          qx=float(abs(q)).hex())
                try:
                    f = {"MKT": self.sandbox.market_order, "LMT": self.sandbox.limit_order, "STP": self.sandbox.stop_order}[op["typ"]]
                    self.orders.append(f(SYM, abs(q), p, op["side"], op["ro"]))
                except exceptions.InsufficientBalance:
                    ev["acc"] = False
            elif k == "cancel":
                ev["id"] = op["id"]
                self.orders[op["id"] - 1].cancel()
            elif k == "exec":
                ev["id"] = op["id"]
                o = self.orders[op["id"] - 1]
                if o.is_active and o.type != order_types.MARKET:
                    self.pos.current_price = float(o.price)
                o.execute()
            elif k == "price":
                self.pos.current_price = float(op["plit"])
                ev["p"] = sc(float(op["plit"]), PU)
            else:
                raise Machinery("unknown op %r" % (op,))
        except Machinery:
            raise
        except Exception as e:
            ev["exc"] = type(e).__name__
        ev["post"] = self.snapshot()
        return ev


def one_history(arg):
    tid, hdr, seed, nops = arg
    rng = random.Random(seed)
    s = DecSession(hdr)
    init = s.snapshot()
    evs, ops = [], []

    def price():
        return "%.2f" % (rng.randint(2000, 30000) / 100)

    for step in range(nops):
        act = [i + 1 for i, o in enumerate(s.orders) if o.is_active]
        base = s.exchange.assets["BTC"]
        quote = s.exchange.assets["USDT"]
        x = rng.random()
        op = None
        if x < 0.45 or not act:
            side = "buy" if (base < 0.002 or rng.random() < 0.5) else "sell"
            typ = rng.choice(["MKT", "LMT", "STP"])
            plit = price()
            p = s.pos.current_price if typ == "MKT" else float(plit)
            probe = rng.random() < 0.03
            if side == "buy":
                q = rng.randint(1, 2999) / 1000
                resting = sum(abs(o.qty) for o in s.orders if o.is_active and o.side == "buy")
                if base + resting + q > 9.9:
                    continue
                if q * p > quote and not probe:
                    continue
                op = {"op": "submit", "side": side, "typ": typ, "ro": False, "qmode": "lit", "qlit": "%.3f" % q, "plit": plit}
            else:
                ro = rng.random() < 0.5
                mode = rng.choice(["all", "half", "lit", "lit", "rest", "rest"])
                if mode == "rest":
                    q = s.qty_of({"qmode": "rest", "typ": typ})
                elif mode == "all":
                    q = base
                elif mode == "half":
                    q = round(base / 2, 3)
                else:
                    q = rng.randint(1, max(1, int(base * 1000))) / 1000
                if q <= 0:
                    continue
                kind_sum = sum(abs(o.qty) for o in s.orders if o.is_active and o.side == "sell" and
                               o.type == ("STOP" if typ == "STP" else "LIMIT"))
                all_sells = sum(abs(o.qty) for o in s.orders if o.is_active and o.side == "sell")
                if not probe:
                    if q + kind_sum > base + 1e-12:
                        continue
                    if not ro and q + all_sells > base + 1e-12:
                        continue           # keep non-reduce-only sells coverable (no oversize fill by construction)
                elif mode != "lit":
                    continue
                if mode == "rest" and not ro:
                    ro = True              # the remainder is sold reduce-only (an oversize fill then closes)
                op = {"op": "submit", "side": side, "typ": typ, "ro": ro, "qmode": mode, "qlit": "%.3f" % q, "plit": plit}
        elif x < 0.72:
            op = {"op": "exec", "id": rng.choice(act)}
        elif x < 0.86:
            cand = [i for i in act if not (hdr.get("no_sell_cancel") and s.orders[i - 1].side == "sell"
                                           and s.orders[i - 1].type != "MARKET")]
            if not cand:
                continue
            op = {"op": "cancel", "id": rng.choice(cand)}
        else:
            op = {"op": "price", "plit": price()}
        ev = s.apply(op)
        ops.append(op)
        evs.append(ev)
        if (ev["k"] == "submit" and not ev["acc"]) or ev["exc"] != "none":
            break
    return {"id": tid, "hdr": hdr, "seed": seed, "init": init, "ev": evs, "ops": ops}


def split_history(arg):
    """boundary scenario (fee 0, exact decimals): buy q0, then 2-3 resting sells of one kind that partition q0 exactly
    (the last one is 'the rest'), so that sell + resting sells of its kind == base held: must be accepted"""
    tid, hdr, seed = arg
    rng = random.Random(seed)
    s = DecSession(hdr)
    init = s.snapshot()
    q0 = rng.randint(300, 2999)
    typ = rng.choice(["LMT", "STP"])
    price = "%.2f" % (hdr["p0"] / 100 * (1.2 if typ == "LMT" else 0.8))
    ops = [{"op": "submit", "side": "buy", "typ": "MKT", "ro": False, "qmode": "lit", "qlit": "%.3f" % (q0 / 1000), "plit": price},
           {"op": "exec", "id": 1}]
    left = q0
    for j in range(rng.choice([1, 2])):
        a = rng.randint(1, left - 1 - (1 if j == 0 else 0))
        left -= a
        ops.append({"op": "submit", "side": "sell", "typ": typ, "ro": rng.random() < 0.5, "qmode": "lit",
                    "qlit": "%.3f" % (a / 1000), "plit": price})
    ops.append({"op": "submit", "side": "sell", "typ": typ, "ro": rng.random() < 0.5, "qmode": "rest", "qlit": "0", "plit": price})
    n_sells = len(ops) - 2
    order = list(range(2, 2 + n_sells))
    rng.shuffle(order)
    for i in order:
        ops.append({"op": "exec", "id": i})
    evs, done = [], []
    for op in ops:
        ev = s.apply(op)
        done.append(op)
        evs.append(ev)
        if (ev["k"] == "submit" and not ev["acc"]) or ev["exc"] != "none":
            break
    return {"id": tid, "hdr": hdr, "seed": seed, "init": init, "ev": evs, "ops": done}


def accumulate_history(arg):
    """many small decimal buys at a non-zero fee (position.qty and the base balance are updated by two cooperating
    sites: they must stay bit-equal), then a sell of exactly position.qty, which must be accepted and leave nothing"""
    tid, hdr, seed = arg
    rng = random.Random(seed)
    s = DecSession(hdr)
    init = s.snapshot()
    evs, done = [], []

    def run(op):
        ev = s.apply(op)
        done.append(op)
        evs.append(ev)
        return not ((ev["k"] == "submit" and not ev["acc"]) or ev["exc"] != "none")

    ok = True
    for cycle in range(rng.randint(1, 2)):
        for j in range(rng.randint(8, 22)):
            if s.exchange.assets["BTC"] > 9.0:
                break
            ok = run({"op": "submit", "side": "buy", "typ": "MKT", "ro": False, "qmode": "lit",
                      "qlit": "%.3f" % (rng.randint(1, 400) / 1000), "plit": "0"})
            ok = ok and run({"op": "exec", "id": len(s.orders)})
            if not ok:
                break
            if rng.random() < 0.2:
                run({"op": "price", "plit": "%.2f" % (rng.randint(2000, 30000) / 100)})
        if not ok:
            break
        typ = rng.choice(["MKT", "LMT", "STP"])
        ok = run({"op": "submit", "side": "sell", "typ": typ, "ro": rng.random() < 0.5, "qmode": "all", "qlit": "0",
                  "plit": "%.2f" % (rng.randint(2000, 30000) / 100)})
        ok = ok and run({"op": "exec", "id": len(s.orders)})
        if not ok:
            break
    return {"id": tid, "hdr": hdr, "seed": seed, "init": init, "ev": evs, "ops": done}


def accumulate_histories(n, seed, first_id=1):
    rng = random.Random(seed * 8191 + 3)
    items = [(first_id + i, {"fee_hbp": [8, 15, 20][i % 3], "start": 5000, "p0": rng.randint(2000, 20000), "no_sell_cancel": True},
              rng.randrange(10 ** 9)) for i in range(n)]
    res = run_isolated(accumulate_history, items, procs=min(8, max(1, n // 20)), chunk=100) if n > 20 else [accumulate_history(i) for i in items]
    for r in res:
        if isinstance(r, tuple) and r and r[0] == "EXC":
            raise Machinery("decimal accumulate history child failed: %s" % r[1])
    return res


def split_histories(n, seed, first_id=1):
    rng = random.Random(seed * 31337 + 7)
    items = [(first_id + i, {"fee_hbp": 0, "start": 5000, "p0": rng.randint(2000, 30000), "no_sell_cancel": True},
              rng.randrange(10 ** 9)) for i in range(n)]
    res = run_isolated(split_history, items, procs=min(8, max(1, n // 20)), chunk=100) if n > 20 else [split_history(i) for i in items]
    for r in res:
        if isinstance(r, tuple) and r and r[0] == "EXC":
            raise Machinery("decimal split history child failed: %s" % r[1])
    return res


def random_histories(n, seed, first_id=1, procs=12):
    rng = random.Random(seed * 7919 + 13)
    items = []
    for i in range(n):
        hdr = {"fee_hbp": rng.choice([0, 8, 15, 20, 14, 52]), "start": rng.choice([1000, 5000]), "p0": rng.randint(2000, 30000),
               "no_sell_cancel": i % 2 == 0}       # half of the histories never cancel a resting sell (input choice only)
        items.append((first_id + i, hdr, rng.randrange(10 ** 9), rng.randint(30, 60)))
    res = run_isolated(one_history, items, procs=min(procs, max(1, n // 10)), chunk=50) if n > 20 else [one_history(i) for i in items]
    for r in res:
        if isinstance(r, tuple) and r and r[0] == "EXC":
            raise Machinery("decimal history child failed: %s" % r[1])
    return res


def replay(p):
    s = DecSession(p["hdr"])
    init = s.snapshot()
    evs = []
    for op in p["ops"]:
        ev = s.apply(op)
        evs.append(ev)
        if (ev["k"] == "submit" and not ev["acc"]) or ev["exc"] != "none":
            break
    return {"id": 1, "hdr": p["hdr"], "seed": p.get("seed", 0), "init": init, "ev": evs, "ops": p["ops"]}


def validate(traces, scratch, parts=6):
    import os
    from concurrent.futures import ThreadPoolExecutor
    from .. import tlc, encode
    from . import acct
    if not traces:
        return {}, []
    slim = [{"id": t["id"], "hdr": t["hdr"], "init": t["init"], "ev": t["ev"]} for t in traces]
    parts = max(1, min(parts, len(slim)))
    jobs = []
    for pi in range(parts):
        pd = os.path.join(scratch, "tv-dec-%d-%d" % (pi, len(os.listdir(scratch))))
        os.makedirs(pd, exist_ok=True)
        path = os.path.join(pd, "traces.json")
        encode.dump({"traces": slim[pi::parts]}, path)
        jobs.append(dict(module="TraceSpotDec", cfg_file="TraceSpotDec.cfg", workers=1, env={"TRACE_FILE": path},
                         scratch=pd, timeout=1500, allow_violation=False, heap=acct.HEAP))
    with ThreadPoolExecutor(max_workers=acct.MAXJVM) as ex:
        results = list(ex.map(lambda j: tlc.run(**j), jobs))
    verdicts = {}
    for r in results:
        for t in tlc.tagged(r, "VERDICT"):
            verdicts[t[1]] = tuple(t[2:])
    missing = [t["id"] for t in traces if t["id"] not in verdicts]
    if missing:
        raise Machinery("no verdict for %d decimal traces (first ids %s)\n%s" % (len(missing), missing[:5], results[0].raw[-2000:]))
    return verdicts, results


def report(ctx, pid, traces, verdicts):
    bad = 0
    for t in traces:
        v = verdicts[t["id"]]
        payload = {"dec": True, "hdr": t["hdr"], "seed": t["seed"], "ops": t["ops"][:max(v[0], 1)]}
        if v[1] != "ok":
            bad += 1
            ctx.violation("%s spot-decimal %s" % (pid, v[1]),
                          "decimal trace %d (fee %s bp) rejected at event %d: %s; last ops=%s" % (
                              t["id"], t["hdr"]["fee_hbp"] / 2, v[0], v[1], t["ops"][max(0, v[0] - 4):v[0]]), payload)
        for k in (v[2] if len(v) > 2 else []):
            ctx.violation("%s spot %s" % (pid, k), "decimal trace %d: the code deviates exactly as the named quirk %s; last ops=%s"
                          % (t["id"], k, t["ops"][max(0, v[0] - 4):v[0]]), payload)
    return bad
