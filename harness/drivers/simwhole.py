"""Whole-run binding (spec -> code): scenarios of SimWhole.tla / random scenarios executed by the real research.backtest
in both simulators with a strategy scripted by the scenario's decision rows; the recorder projects the whole system after
every minute (normal) / chunk (fast) and TraceSimWhole.tla lets TLC compare with the model.

scenario = {"tf": trading minutes, "chunk": ..., "K": lattice, "start": balance, "lev": L, "fee": [num, den],
            "hist": [{"raw": [{o,c,h,l}..], "row": {cancel, close, edit, entry{dir, r1{q,p}, r2{q,p}, mode, sl, tp, d}}}, ..]}
Nothing here judges: it drives, records and encodes (numbers as exact rationals [num, den])."""
import json, random, signal
from fractions import Fraction
import numpy as np
from .. import tlc, session as S
from ..core import Machinery
from . import simruns as R

PB, PS = 100, 10
TFNAME = {1: '1m', 3: '3m', 5: '5m', 15: '15m'}
NOROW = {"q": 0, "p": 0}
NOENTRY = {"dir": 0, "r1": NOROW, "r2": NOROW, "mode": "none", "sl": 0, "tp": 0, "d": 0, "half": False}


def tpq(q, half):
    return max(1, int(q) // 2) if half else q
IDLE = {"cancel": False, "close": False, "edit": 0, "entry": NOENTRY}


def P(x):
    return float(PB + PS * x)


MAXDEN = 20000


def _snap(x):
    """the rational with a small denominator that the double stands for.  Scenario quantities make every model value a
    rational with denominator <= 3 * 64 * 2; the simulators compute it in doubles (exact when dyadic, within a few ulps when
    thirds appear), so the nearest fraction with denominator <= 20000 is that value; anything farther than 1e-7 is refused."""
    f = Fraction(float(x)).limit_denominator(MAXDEN)
    if abs(float(f) - float(x)) > 1e-7 * max(1.0, abs(float(x))):
        raise Machinery("value %r is not close to a rational with denominator <= %d" % (x, MAXDEN))
    return f


def rat(x):
    f = _snap(x)
    return [f.numerator, f.denominator]


def lat_rat(price):
    """real price -> rational of the lattice coordinate"""
    f = (_snap(price) - PB) / PS
    return [f.numerator, f.denominator]


def lat(price):
    f = (Fraction(float(price)) - PB) / PS
    if f.denominator != 1:
        raise Machinery("price %r is not on the lattice" % (price,))
    return int(f)


def whole_strategy(rows, hooks):
    from jesse.strategies import Strategy

    class Whole(Strategy):
        def _row(self):
            return rows[self.index] if self.index < len(rows) else IDLE

        def should_cancel_entry(self):
            return bool(self._row()['cancel'])

        def should_long(self):
            return self._row()['entry']['dir'] == 1

        def should_short(self):
            return self._row()['entry']['dir'] == -1

        def _go(self):
            e = self._row()['entry']
            self._plan = e
            rows_ = [(e['r1']['q'], P(e['r1']['p']))]
            if e['r2']['q']:
                rows_.append((e['r2']['q'], P(e['r2']['p'])))
            if e['mode'] == 'go':
                tot = e['r1']['q'] + e['r2']['q']
                self.stop_loss = tot, P(e['sl'])
                self.take_profit = tpq(tot, e['half']), P(e['tp'])
            return rows_

        def go_long(self):
            self.buy = self._go()

        def go_short(self):
            self.sell = self._go()

        def update_position(self):
            r = self._row()
            if r['close']:
                self.liquidate()
            elif r['edit']:
                self.stop_loss = abs(self.position.qty), P(r['edit'])

        def on_open_position(self, order):
            hooks.append('open')
            e = getattr(self, '_plan', None) or NOENTRY
            q = abs(self.position.qty)
            if e['mode'] == 'open':
                self.stop_loss = q, P(e['sl'])
                self.take_profit = tpq(q, e['half']), P(e['tp'])
            elif e['mode'] == 'rel':
                sg = 1 if self.position.qty > 0 else -1
                self.stop_loss = q, self.price - sg * e['d'] * PS
                self.take_profit = tpq(q, e['half']), self.price + sg * e['d'] * PS

        def on_increased_position(self, order):
            hooks.append('inc')
            e = getattr(self, '_plan', None) or NOENTRY
            if e['mode'] in ('open', 'rel') and self.stop_loss is not None and self.take_profit is not None:
                q = abs(self.position.qty)
                slp = float(np.array(self.stop_loss, dtype=float).reshape(-1, 2)[0][1])
                tpp = float(np.array(self.take_profit, dtype=float).reshape(-1, 2)[0][1])
                self.stop_loss = q, slp
                self.take_profit = tpq(q, e['half']), tpp

        def on_reduced_position(self, order):
            hooks.append('red')

        def on_close_position(self, order):
            hooks.append('close')

    return Whole


def run_whole(item):
    """item: scenario + mode.  Returns the recorded projections and final results (TLC-readable)."""
    from jesse.models import Order
    from jesse.modes import backtest_mode as bm
    from jesse.store import store
    sc = item
    hist = sc['hist']
    raws = [c for e in hist for c in e['raw']]
    tf = sc['tf']
    # the k-th strategy step (index k) follows the row of the chunk that ends on the k-th trading-candle boundary
    rows, mm = [], 0
    for e in hist:
        mm += len(e['raw'])
        if mm % tf == 0:
            rows.append(e['row'])
    cand = np.array([[S.T0 + i * S.MIN, P(c['o']), P(c['c']), P(c['h']), P(c['l']), 1.0] for i, c in enumerate(raws)])
    hooks, proj, fills = [], [], []
    rec = S.Recorder()
    ex = S.FUT
    sym = 'BTC-USDT'

    def post_flush(tok, r, e, *a, **k):
        if e is not None:
            return
        exch = store.exchanges.storage[ex]
        pos = store.positions.storage['%s-%s' % (ex, sym)]
        active = [[o.side, o.type, int(abs(o.qty)), lat(o.price), 1 if o.reduce_only else 0]
                  for o in store.orders.get_orders(ex, sym) if o.is_active]
        c1 = store.candles.get_candles(ex, sym, '1m')[-1]
        ct = store.candles.get_candles(ex, sym, TFNAME[tf])[-1] if tf != 1 else c1
        row4 = lambda c: [lat(c[1]), lat(c[2]), lat(c[3]), lat(c[4])]
        proj.append({"t": int((store.app.time - S.T0) // S.MIN), "q": int(pos.qty),
                     "en": lat_rat(pos.entry_price) if pos.qty != 0 else [0, 1],
                     "wal": rat(exch.assets['USDT']), "mar": rat(exch.available_margin), "ords": active,
                     "hooks": list(hooks), "c1": row4(c1), "ctf": row4(ct), "ntr": len(store.completed_trades.trades)})
        del hooks[:]
    rec._wrap(bm, '_execute_market_orders', post=post_flush)

    def pre_exec(self_, *a, **k):
        return self_.status

    def post_exec(tok, r, e, self_, *a, **k):
        if tok == 'ACTIVE' and self_.status != tok:
            fills.append([self_.side, self_.type, int(abs(self_.qty)), lat(self_.price), int((self_.executed_at - S.T0) // S.MIN)])
    rec._wrap(Order, 'execute', pre=pre_exec, post=post_exec)
    old = signal.signal(signal.SIGALRM, R._on_alarm)
    signal.alarm(R.RUN_TIMEOUT)
    try:
        routes = [{'symbol': sym, 'timeframe': TFNAME[tf]}]
        data = [{'symbol': sym, 'timeframe': TFNAME[sc['chunk']]}] if sc['chunk'] != tf else []
        fee = sc['fee'][0] / sc['fee'][1]
        out = S.run_backtest(None, S.futures_config(balance=float(sc['start']), fee=fee, lev=sc['lev'], mode='cross'),
                             {sym: cand}, routes=routes, data_routes=data, fast=(item['mode'] == 'fast'),
                             strategy_cls=whole_strategy(rows, hooks))
    except R.HarnessTimeout:
        out = {'exc': 'HarnessTimeout: the backtest did not finish', 'final': None, 'result': None}
    finally:
        signal.alarm(0)
        signal.signal(signal.SIGALRM, old)
        rec.uninstall()
    exc = out['exc'].split(':')[0] if out['exc'] else 'run'
    res = {"proj": proj, "fills": fills, "exc": exc, "exc_text": (out['exc'] or '')[:200], "trades": [], "daily": [],
           "total": 0, "net": [0, 1], "wal": [0, 1]}
    fin = out.get('final') or {}
    if exc == 'run':
        # the run's last two projections come from the terminate loop (after the last minute): they are not minute ends
        n = len(raws) if item['mode'] != 'fast' else len(hist)
        res["proj"] = proj[:n]
        for t in fin['trades']:
            res["trades"].append({"type": t['type'], "qty": int(t['qty']), "entry": rat(t['entry']), "exit": rat(t['exit']),
                                  "pnl": rat(t['pnl']), "fee": rat(t['fee']), "opened": int((t['opened_at'] - S.T0) // S.MIN),
                                  "closed": int((t['closed_at'] - S.T0) // S.MIN)})
        res["daily"] = [rat(x) for x in fin['daily']]
        met = (out.get('result') or {}).get('metrics') or {}
        res["total"] = int(met.get('total', 0) or 0)
        res["net"] = rat(met['net_profit']) if 'net_profit' in met else [0, 1]
        res["wal"] = rat(list(fin['accts'].values())[0]['wallet'])
    return res


def run_wholes(scens, chunk=20):
    jobs = []
    for sc in scens:
        jobs.append(dict(sc, mode='step'))
        jobs.append(dict(sc, mode='fast'))
    res = S.run_isolated(run_whole, jobs, procs=16, chunk=chunk)
    for x in res:
        if isinstance(x, tuple) and x and x[0] == 'EXC':
            raise Machinery("whole-run driver failed: %s" % x[1])
    return [(res[2 * j], res[2 * j + 1]) for j in range(len(scens))]


def whole_trace(tid, sc, rn, rf):
    keep = ("proj", "fills", "exc", "trades", "daily", "total", "net", "wal")
    return {"id": tid, "hdr": {"tf": sc["tf"], "chunk": sc["chunk"]}, "hist": sc["hist"],
            "norm": {k: rn[k] for k in keep}, "fast": {k: rf[k] for k in keep}}


def whole_cfg(ctx_dir, sc, liqfix=False):
    path = "%s/TraceSimWhole-%d-%d-%d-%d.cfg" % (ctx_dir, sc["start"], sc["lev"], sc["fee"][0], sc["fee"][1])
    with open(path, "w") as f:
        f.write("SPECIFICATION Spec\nCONSTANTS PB = %d PS = %d Lev = %d FeeNum = %d FeeDen = %d Start = %d DayLen = 1440 LiqFix = %s\n"
                "INVARIANT Report\nCHECK_DEADLOCK FALSE\n" % (PB, PS, sc["lev"], sc["fee"][0], sc["fee"][1], sc["start"],
                                                               "TRUE" if liqfix else "FALSE"))
    return path


F_ = lambda o, c, h, l: {"o": o, "c": c, "h": h, "l": l}
# long 2 at the market, take-profit for half at 3, price comes back to 3 and the user calls liquidate(): the declared
# (1, price) equals the stale copy of the executed take-profit
CANON_LIQ = {"tf": 1, "chunk": 1, "K": 4, "start": 2000, "lev": 1, "fee": [0, 1], "hist": [
    {"raw": [F_(2, 2, 2, 2)], "row": {"cancel": False, "close": False, "edit": 0,
                                      "entry": {"dir": 1, "r1": {"q": 2, "p": 2}, "r2": NOROW, "mode": "go", "sl": 1, "tp": 3, "d": 0, "half": True}}},
    {"raw": [F_(2, 3, 3, 2)], "row": IDLE}, {"raw": [F_(3, 2, 3, 2)], "row": IDLE},
    {"raw": [F_(2, 3, 3, 2)], "row": {"cancel": False, "close": True, "edit": 0, "entry": NOENTRY}},
    {"raw": [F_(3, 3, 3, 3)], "row": IDLE}]}


def detect_liqfix():
    """does liquidate() close the position in the stale-copy situation?  (an input of the model, not a verdict)"""
    (rn, rf), = run_wholes([CANON_LIQ])
    return rn["exc"] == "run" and len(rn["proj"]) >= 4 and rn["proj"][3]["q"] == 0


# ------------------------------------------------------------------------------------------------ random scenarios
def rand_candle(rng, K, prev, gap_p):
    o = prev if (prev and rng.random() >= gap_p) else rng.randint(1, K)
    if rng.random() < 0.25:
        return {"o": o, "c": o, "h": o, "l": o}
    c = max(1, min(K, o + rng.randint(-2, 2)))
    h = min(K, max(o, c) + rng.choice([0, 0, 1, 2]))
    l = max(1, min(o, c) - rng.choice([0, 0, 1, 2]))
    return {"o": o, "c": c, "h": h, "l": l}


def rand_entry(rng, K, cur):
    d = rng.choice([1, -1])
    ps = sorted(rng.sample(range(2, K), 2)) if K >= 4 and rng.random() < 0.4 else [rng.randint(2, K - 1)]
    if cur and rng.random() < 0.3:
        ps[0] = cur                      # a market row
        ps = sorted(set(ps))
    q = rng.choice([1, 2])
    r1 = {"q": q, "p": ps[0]}
    r2 = {"q": q, "p": ps[1]} if len(ps) > 1 else NOROW
    lo, hi = min(ps), max(ps)
    mode = rng.choice(["go", "open", "rel"])
    e = {"dir": d, "r1": r1, "r2": r2, "mode": mode, "sl": 0, "tp": 0, "d": 0, "half": rng.random() < 0.3}
    if mode == "rel":
        e["d"] = rng.randint(1, max(1, K // 2))
    else:
        below = rng.randint(1, lo - 1) if lo > 1 else 1
        above = rng.randint(hi + 1, K) if hi < K else K
        if rng.random() < 0.08:          # wrong-side exit: replaced by a market order when the position opens
            below, above = above, below
        e["sl"], e["tp"] = (below, above) if d == 1 else (above, below)
    return e


def rand_whole(rng, pad=False):
    K = rng.choice([4, 5, 6, 8])
    chunk, tf = rng.choice([(3, 3), (5, 5), (1, 1), (1, 3), (3, 15), (3, 3)])
    steps = rng.randint(3, 8 if tf < 15 else 3)
    gap_p = rng.choice([0.0, 0.2, 0.5])
    start = rng.choice([400, 700, 2000])
    sc = {"tf": tf, "chunk": chunk, "K": K, "start": start, "lev": rng.choice([1, 2]), "fee": rng.choice([[0, 1], [1, 16], [1, 64]])}
    hist, prev, m = [], 0, 0
    if pad:
        x = rng.randint(2, K - 1)
        flat = {"o": x, "c": x, "h": x, "l": x}
        n0 = 1440 - tf * rng.randint(0, 2)
        n0 -= n0 % tf
        while m < n0:
            hist.append({"raw": [flat] * chunk, "row": IDLE})
            m += chunk
        prev = x
    n = m + tf * steps
    while m < n:
        raw = []
        for _ in range(chunk):
            c = rand_candle(rng, K, prev, gap_p)
            raw.append(c)
            prev = c["c"]
        m += chunk
        row = dict(IDLE)
        if m % tf == 0:
            row = {"cancel": rng.random() < 0.2, "close": rng.random() < 0.12,
                   "edit": rng.randint(1, K) if rng.random() < 0.12 else 0,
                   "entry": rand_entry(rng, K, prev) if rng.random() < 0.6 else NOENTRY}
        hist.append({"raw": raw, "row": row})
    sc["hist"] = hist
    return sc


# ------------------------------------------------------------------------------------------------ two symbols, one wallet
SYM2 = ['BTC-USDT', 'ETH-USDT']


def run_whole2(item):
    """two-symbol scenario: hist entries {rawA, rawB, rowA, rowB}; routes [A, B] with the same scripted strategy class"""
    from jesse.models import Order
    from jesse.modes import backtest_mode as bm
    from jesse.store import store
    sc = item
    hist, tf = sc['hist'], sc['tf']
    rows = {SYM2[0]: [], SYM2[1]: []}
    mm = 0
    for e in hist:
        mm += len(e['rawA'])
        if mm % tf == 0:
            rows[SYM2[0]].append(e['rowA'])
            rows[SYM2[1]].append(e['rowB'])
    mk = lambda key: np.array([[S.T0 + i * S.MIN, P(c['o']), P(c['c']), P(c['h']), P(c['l']), 1.0]
                               for i, c in enumerate([c for e in hist for c in e[key]])])
    cand = {SYM2[0]: mk('rawA'), SYM2[1]: mk('rawB')}
    hooks = {SYM2[0]: [], SYM2[1]: []}
    proj, fills = [], {SYM2[0]: [], SYM2[1]: []}
    ex = S.FUT
    base = {}

    def cls_for():
        from jesse.strategies import Strategy
        A = whole_strategy(rows[SYM2[0]], hooks[SYM2[0]])

        class Two(A):
            """one class for both routes: rows and hook list are looked up by the route's symbol"""
            def _row(self):
                r = rows[self.symbol]
                return r[self.index] if self.index < len(r) else IDLE

            def on_open_position(self, order):
                A.on_open_position(self, order)
                self._mv('open')

            def on_increased_position(self, order):
                A.on_increased_position(self, order)
                self._mv('inc')

            def on_reduced_position(self, order):
                A.on_reduced_position(self, order)
                self._mv('red')

            def on_close_position(self, order):
                A.on_close_position(self, order)
                self._mv('close')

            def _mv(self, w):
                # the base class logged into A's list: move the word to the list of this route's symbol
                hooks[SYM2[0]].pop()
                hooks[self.symbol].append(w)
        return Two

    rec = S.Recorder()
    row4 = lambda c: [lat(c[1]), lat(c[2]), lat(c[3]), lat(c[4])]

    def post_flush(tok, r, e, *a, **k):
        if e is not None:
            return
        exch = store.exchanges.storage[ex]
        p = {"t": int((store.app.time - S.T0) // S.MIN), "wal": rat(exch.assets['USDT']), "mar": rat(exch.available_margin)}
        for sym, sfx in zip(SYM2, "ab"):
            pos = store.positions.storage['%s-%s' % (ex, sym)]
            c1 = store.candles.get_candles(ex, sym, '1m')[-1]
            ct = store.candles.get_candles(ex, sym, TFNAME[tf])[-1] if tf != 1 else c1
            p["q" + sfx] = int(pos.qty)
            p["en" + sfx] = lat_rat(pos.entry_price) if pos.qty != 0 else [0, 1]
            p["o" + sfx] = [[o.side, o.type, int(abs(o.qty)), lat(o.price), 1 if o.reduce_only else 0]
                            for o in store.orders.get_orders(ex, sym) if o.is_active]
            p["h" + sfx] = list(hooks[sym])
            p["c1" + sfx] = row4(c1)
            p["ctf" + sfx] = row4(ct)
            p["n" + sfx] = sum(1 for t in store.completed_trades.trades if t.symbol == sym)
            del hooks[sym][:]
        proj.append(p)
    rec._wrap(bm, '_execute_market_orders', post=post_flush)

    def pre_exec(self_, *a, **k):
        return self_.status

    def post_exec(tok, r, e, self_, *a, **k):
        if tok == 'ACTIVE' and self_.status != tok:
            fills[self_.symbol].append([self_.side, self_.type, int(abs(self_.qty)), lat(self_.price),
                                        int((self_.executed_at - S.T0) // S.MIN)])
    rec._wrap(Order, 'execute', pre=pre_exec, post=post_exec)
    old = signal.signal(signal.SIGALRM, R._on_alarm)
    signal.alarm(R.RUN_TIMEOUT)
    try:
        routes = [{'symbol': s, 'timeframe': TFNAME[tf]} for s in SYM2]
        data = [{'symbol': s, 'timeframe': TFNAME[sc['chunk']]} for s in SYM2] if sc['chunk'] != tf else []
        out = S.run_backtest(None, S.futures_config(balance=float(sc['start']), fee=sc['fee'][0] / sc['fee'][1], lev=sc['lev'], mode='cross'),
                             cand, routes=routes, data_routes=data, fast=(item['mode'] == 'fast'), strategy_cls=cls_for())
    except R.HarnessTimeout:
        out = {'exc': 'HarnessTimeout: the backtest did not finish', 'final': None, 'result': None}
    finally:
        signal.alarm(0)
        signal.signal(signal.SIGALRM, old)
        rec.uninstall()
    exc = out['exc'].split(':')[0] if out['exc'] else 'run'
    res = {"proj": proj, "fillsA": fills[SYM2[0]], "fillsB": fills[SYM2[1]], "exc": exc, "exc_text": (out['exc'] or '')[:200],
           "tradesA": [], "tradesB": [], "daily": [], "wal": [0, 1]}
    fin = out.get('final') or {}
    if exc == 'run':
        n = sum(len(e['rawA']) for e in hist) if item['mode'] != 'fast' else len(hist)
        res["proj"] = proj[:n]
        for t in fin['trades']:
            rowt = {"type": t['type'], "qty": int(t['qty']), "entry": rat(t['entry']), "exit": rat(t['exit']), "pnl": rat(t['pnl']),
                    "fee": rat(t['fee']), "opened": int((t['opened_at'] - S.T0) // S.MIN), "closed": int((t['closed_at'] - S.T0) // S.MIN)}
            res["tradesA" if t['sym'] == SYM2[0] else "tradesB"].append(rowt)
        res["daily"] = [rat(x) for x in fin['daily']]
        res["wal"] = rat(list(fin['accts'].values())[0]['wallet'])
    return res


def run_wholes2(scens, chunk=20):
    jobs = []
    for sc in scens:
        jobs.append(dict(sc, mode='step'))
        jobs.append(dict(sc, mode='fast'))
    res = S.run_isolated(run_whole2, jobs, procs=16, chunk=chunk)
    for x in res:
        if isinstance(x, tuple) and x and x[0] == 'EXC':
            raise Machinery("two-symbol whole-run driver failed: %s" % x[1])
    return [(res[2 * j], res[2 * j + 1]) for j in range(len(scens))]


def whole_trace2(tid, sc, rn, rf):
    keep = ("proj", "fillsA", "fillsB", "exc", "tradesA", "tradesB", "daily", "wal")
    return {"id": tid, "hdr": {"tf": sc["tf"], "chunk": sc["chunk"]}, "hist": sc["hist"],
            "norm": {k: rn[k] for k in keep}, "fast": {k: rf[k] for k in keep}}


def pair_scenarios(a, b):
    """two single-symbol scenarios with the same shape -> one two-symbol scenario (A's script on BTC, B's on ETH)"""
    if len(a['hist']) != len(b['hist']) or any(len(x['raw']) != len(y['raw']) for x, y in zip(a['hist'], b['hist'])):
        return None
    return {"tf": a["tf"], "chunk": a["chunk"], "K": max(a["K"], b["K"]), "start": a["start"], "lev": a["lev"], "fee": a["fee"],
            "hist": [{"rawA": x["raw"], "rawB": y["raw"], "rowA": x["row"], "rowB": y["row"]} for x, y in zip(a['hist'], b['hist'])]}
