"""Drivers for C02 / C08 / C09: object-level minute/chunk scenarios against the real matching functions,
in-vivo backtests recorded with harness.session.Recorder, and the encoders that turn both into traces for
spec/TraceMatching.tla.  Python drives, records and encodes; TLC judges."""
import itertools, math, random
import numpy as np
from .. import encode
from ..session import T0, MIN, FUT

SYM = 'BTC-USDT'
NOQ = 99999        # sentinel: position delta not recorded


def preimport():
    """import jesse once in the parent so that forked workers start warm (no session is built here)"""
    import jesse.helpers, jesse.research, jesse.strategies, jesse.models, jesse.store, jesse.routes  # noqa
    from jesse.modes import backtest_mode  # noqa
    from jesse.services import candle  # noqa


# ------------------------------------------------------------------------------------------------
# scenario families (mirror of the environments of spec/Matching.tla and spec/FastMatching.tla)
# ------------------------------------------------------------------------------------------------
def candles_on(K):
    return [(o, c, h, l) for l in range(1, K + 1) for h in range(l, K + 1)
            for o in range(l, h + 1) for c in range(l, h + 1)]


def scripts(K, J, R, F):
    """reaction scripts: <= R reactions, each bound to the f-th fill of the minute (f nondecreasing in 1..F);
    a reaction submits one resting order at a lattice price ('s'), cancels the order with creation ordinal j ('c',
    no-op when that order is not active) or submits a MARKET order at the current price through the real
    exchange driver ('m': what liquidate() / an exit at the current price do inside a fill hook)"""
    acts = [('s', p) for p in range(1, K + 1)] + [('c', j) for j in range(1, J + 1)] + [('m', 0)]
    res = [()]
    for r in range(1, R + 1):
        for fs in itertools.combinations_with_replacement(range(1, F + 1), r):
            for a in itertools.product(acts, repeat=r):
                res.append(tuple((f,) + x for f, x in zip(fs, a)))
    return res


def step_family(K, N, R, F):
    """every minute scenario: candle x <= N resting orders at any price (sequence: store order matters) x script"""
    sc = scripts(K, N + R, R, F)
    for cd in candles_on(K):
        for n in range(0, N + 1):
            for prices in itertools.product(range(1, K + 1), repeat=n):
                for s in sc:
                    yield {'kind': 'step', 'mins': [cd], 'prices': list(prices), 'script': [list(x) for x in s]}


def fast_family(K, N, m, R=0, F=2):
    sc = scripts(K, N + R, R, F)
    cds = candles_on(K)
    for mins in itertools.product(cds, repeat=m):
        for n in range(1, N + 1):
            for prices in itertools.product(range(1, K + 1), repeat=n):
                for s in sc:
                    yield {'kind': 'fast', 'mins': [list(x) for x in mins], 'prices': list(prices),
                           'script': [list(x) for x in s]}


def scen_key(s):
    """flat integer key (also computed from the spec constants by spec/ScenarioCount.tla)"""
    k = [len(s['mins'])]
    for cd in s['mins']:
        k += list(cd)
    k += [len(s['prices'])] + list(s['prices']) + [len(s['script'])]
    for f, kind, arg in s['script']:
        k += [f, {'s': 0, 'c': 1, 'm': 2}[kind], arg]
    return k


def monotone_map(K, rng, mode):
    """strictly increasing map lattice 1..K -> floats; 'id' keeps the integers"""
    if mode == 'id':
        return {r: float(r) for r in range(0, K + 2)}
    base = rng.choice([0.37, 17.0, 250.0, 30123.5])
    v, out = base, {}
    for r in range(0, K + 2):
        v = v + rng.choice([1e-6, 0.01, 0.5, 1.0, 3.75]) * (1 + rng.random())
        out[r] = float(v)
    return out


# ------------------------------------------------------------------------------------------------
# object-level runner: one session per process, reset between scenarios
# ------------------------------------------------------------------------------------------------
class ScenRunner:
    def __init__(self):
        from ..session import ObjSession
        from jesse.store import store
        from jesse.models import Order
        from jesse.modes import backtest_mode as bm
        self.s = ObjSession(typ='futures', fee=0.0, lev=1, mode='cross', balance=1e13, price=100.0,
                            cancel_on_close=False)
        self.store, self.bm, self.Order = store, bm, Order
        self.ex = self.s.ex
        self.pos = self.s.pos[SYM]
        self.pos.strategy.hook = self._hook
        self.exch = store.exchanges.storage[self.ex]
        self.ev = None
        self.n = 2
        self.ts0 = 0
        self.byord = {}
        self.script = []
        self.fills = 0
        self.vmap = None
        self.qty_after_fill = None
        self._orig_exec, self._orig_cancel = Order.execute, Order.cancel
        me = self

        def execute(o, *a, **k):
            # the event is placed where execute() begins (reactions made by hooks inside come after it) and
            # completed when it returns
            pre, q0 = o.status, me.pos.qty
            rec = None
            if me.ev is not None:
                rec = ['exec', getattr(o, '_v_ord', 0), pre, None, o.price, o.qty, None, None]
                me.ev.append(rec)
            try:
                return me._orig_exec(o, *a, **k)
            finally:
                if rec is not None:
                    rec[3], rec[6] = o.status, me._t()
                    rec[7] = (me.qty_after_fill if me.qty_after_fill is not None else me.pos.qty) - q0
                    me.qty_after_fill = None

        def cancel(o, *a, **k):
            pre = o.status
            try:
                return me._orig_cancel(o, *a, **k)
            finally:
                if me.ev is not None:
                    me.ev.append(('cancel', getattr(o, '_v_ord', 0), pre, o.status, me._t()))
        Order.execute, Order.cancel = execute, cancel

    def close(self):
        self.Order.execute, self.Order.cancel = self._orig_exec, self._orig_cancel

    def _t(self):
        return int((self.store.app.time - self.ts0) // MIN)

    def _new_order(self, lattice_price, idx):
        side = 'buy' if (idx + self.salt) % 3 else 'sell'
        typ = 'LIMIT' if (idx + self.salt // 3) % 2 else 'STOP'
        o = self.s.order(SYM, side, typ, 1.0, self.vmap[lattice_price])
        o._v_ord = len(self.byord) + 1
        self.byord[o._v_ord] = o
        self.ev.append(('submit', o._v_ord, typ, o.price, o.qty, self._t(), side))
        return o

    def _hook(self, order):
        self.fills += 1
        self.qty_after_fill = self.pos.qty       # before any reaction changes the position further
        for f, kind, arg in self.script:
            if f != self.fills:
                continue
            if kind == 's':
                self._new_order(arg, len(self.byord))
            elif kind == 'm':
                from jesse.services.api import api
                cur = self.pos.current_price
                side = 'sell' if self.pos.qty > 0 else 'buy'
                o = api.market_order(self.ex, SYM, 1.0, cur, side, False)
                o._v_ord = len(self.byord) + 1
                self.byord[o._v_ord] = o
                self.ev.append(('submit', o._v_ord, 'MARKET', o.price, o.qty, self._t(), side, cur))
            else:
                o = self.byord.get(arg)
                if o is not None and o.is_active:
                    o.cancel()

    def reset(self):
        st = self.store
        self.ev = None
        for o in list(st.orders.get_orders(self.ex, SYM)):
            if o.is_active:
                o.cancel()
        st.orders.reset_trade_orders(self.ex, SYM)
        st.orders.to_execute = []
        st.completed_trades.tempt_trades.clear()
        st.completed_trades.trades.clear()
        p = self.pos
        p.qty, p.previous_qty, p.entry_price, p.exit_price = 0, 0, None, None
        self.exch.assets[self.exch.settlement_currency] = 1e13
        self.byord, self.fills = {}, 0
        if self.n > 4000:        # keep the candle store small
            st.candles.get_storage(self.ex, SYM, '1m').flush()

    def run(self, scn, vmode='id', seed=0):
        """execute one scenario against the real function; returns (events, value map)"""
        rng = random.Random(seed)
        K = max(max(cd) for cd in scn['mins'])
        K = max([K] + scn['prices'] + [a for f, k, a in scn['script'] if k == 's'])
        self.reset()
        self.vmap = monotone_map(K, rng, vmode)
        self.salt = seed % 7
        self.script = scn['script']
        m = len(scn['mins'])
        self.n += 1
        ts = T0 + self.n * MIN
        self.n += m
        self.ts0 = ts
        st = self.store
        st.app.time = ts
        self.ev = []
        for i, p in enumerate(scn['prices']):
            self._new_order(p, i)
        V = self.vmap
        arr = np.array([[ts + j * MIN, V[o], V[c], V[h], V[l], 1.0] for j, (o, c, h, l) in enumerate(scn['mins'])])
        self.pos.current_price = float(arr[0][1])
        ev = self.ev
        try:
            if scn['kind'] == 'step':
                st.app.time = ts + MIN
                st.candles.add_candle(arr[0].copy(), self.ex, SYM, '1m', with_execution=False, with_generation=False)
                ev.append(('minute', 1))
                self.bm._simulate_price_change_effect(arr[0].copy(), self.ex, SYM)
                ev.append(('minute_end',))
                st.orders.execute_pending_market_orders()        # the simulators' flush after the step
            else:
                ev.append(('chunk', 1, m))
                self.bm._simulate_price_change_effect_multiple_candles(arr.copy(), self.ex, SYM)
                ev.append(('chunk_end',))
                st.orders.execute_pending_market_orders()
        except Exception as ex:
            ev.append(('exc', type(ex).__name__, str(ex)[:200]))
        self.ev = None
        return ev, [[V[x] for x in cd] for cd in scn['mins']]


def scenario_trace(tid, scn, ev, raw_vals, check, mode=None):
    """encode a scenario run for TraceMatching (dense ranks over every price of the run)"""
    vals = set(v for cd in raw_vals for v in cd)
    for e in ev:
        if e[0] in ('submit', 'exec'):
            vals.add(e[3] if e[0] == 'submit' else e[4])
        if e[0] == 'submit' and len(e) > 7:
            vals.add(e[7])
    rk = {v: i + 1 for i, v in enumerate(sorted(vals))}
    out = []
    for e in ev:
        k = e[0]
        if k == 'submit':
            out.append({'k': 'submit', 'oid': e[1], 'typ': e[2], 'p': rk[e[3]], 'q8': int(abs(e[4]) * 8),
                        'qh': float(abs(e[4])).hex(), 't': e[5],
                        'side': e[6], 'cur': rk[e[7]] if len(e) > 7 else 0, 'ro': False, 'pu': 0, 'cu': 0})
        elif k == 'exec':
            out.append({'k': 'exec', 'oid': e[1], 'pre': e[2], 'post': e[3], 'p': rk[e[4]], 'q8': int(abs(e[5]) * 8),
                        'qh': float(abs(e[5])).hex(), 't': e[6], 'dq8': int(e[7] * 8), 'sq8': int(e[5] * 8)})
        elif k == 'cancel':
            out.append({'k': 'cancel', 'oid': e[1], 'pre': e[2], 'post': e[3], 't': e[4]})
        elif k == 'minute':
            out.append({'k': 'minute', 'i': e[1]})
        elif k == 'chunk':
            out.append({'k': 'chunk', 'i': e[1], 'n': e[2]})
        elif k in ('minute_end', 'chunk_end'):
            out.append({'k': k, 'haspos': False, 'q8': 0, 'liq': 0})
        elif k == 'exc':
            break
    hdr = {'mode': mode or scn['kind'], 'check': list(check), 'raw': [[rk[v] for v in cd] for cd in raw_vals],
           'lev': 1, 'levmode': 'cross', 'fee': [0, 1], 'passive': False}
    return {'id': tid, 'hdr': hdr, 'ev': out}


def run_scenario_batch(item):
    """forked worker: item = (scenarios, first id, check families, value-map mode, seed) -> encoded traces + stats"""
    scns, id0, check, vmode, seed = item
    r = ScenRunner()
    traces, excs, fills = [], [], 0
    try:
        for j, scn in enumerate(scns):
            vm = vmode if vmode != 'mix' else ('id' if (seed + j) % 2 else 'real')
            ev, raw = r.run(scn, vm, seed + j)
            if ev and ev[-1][0] == 'exc':
                excs.append((scn, ev[-1][1], ev[-1][2]))
            fills += sum(1 for e in ev if e[0] == 'exec' and e[2] == 'ACTIVE' and e[3] == 'EXECUTED')
            traces.append(scenario_trace(id0 + j, scn, ev, raw, check))
    finally:
        r.close()
    return traces, excs, fills


# ------------------------------------------------------------------------------------------------
# in-vivo: Recorder events of a real backtest -> TraceMatching trace
# ------------------------------------------------------------------------------------------------
def q8_or(x, default=-1):
    """8 * qty when that is an exact integer (C09 arithmetic), else `default`"""
    y = float(x) * 8
    return int(y) if y == int(y) and abs(y) < 1e8 else default


def vivo_trace(tid, rec_events, raw, cfg, mode, check, unit=1e-3, completed=True, sym=None, passive=False):
    """raw: the 1m candle array given to research.backtest (n x 6, before jesse mutates its copy).
    Prices -> dense ranks over the run; C09 amounts -> multiples of `unit`.
    sym: encode the trace of this symbol out of a run with several routes; the liquidation checks of the other
    symbols appear as xliq / xliq_end (with this symbol's position), `passive` says that this symbol's strategy
    does not react to the other route's events (then nothing of it may move inside such a window)."""
    if sym is not None:
        own = []
        for e in rec_events:
            if e.get('sym') == sym:
                own.append(e)
            elif e['k'] in ('liqcheck', 'liqcheck_end') and 'sym' in e:
                q = ((e.get('acct') or {}).get('pos') or {}).get(sym, {}).get('qty', 0)
                own.append({'k': 'x' + e['k'], 'xq': q, 'exc': 'none', 'count': int(e['count'])})
        rec_events = own
    vals = set()
    for row in raw:
        vals.update(float(x) for x in row[1:5])
    for e in rec_events:
        k = e['k']
        if k in ('submit', 'exec_begin'):
            if e['price'] is not None:
                vals.add(float(e['price']))
            if k == 'submit' and e.get('cur') is not None:
                vals.add(float(e['cur']))
        elif k in ('liqcheck', 'minute_end', 'chunk_end') and e.get('liq') is not None and \
                not (isinstance(e['liq'], float) and math.isnan(e['liq'])):
            vals.add(float(e['liq']))
    rk = {v: i + 1 for i, v in enumerate(sorted(vals))}
    from fractions import Fraction
    f = Fraction(cfg.get('fee', 0.0)).limit_denominator(10 ** 6)        # the configured rate (0.0005 -> 1/2000)
    fee = [f.numerator, f.denominator]

    def U(x):
        return encode.scaled(float(x), unit)

    def pos_q(e):
        a = e.get('acct')
        if not a:
            return None
        p = a['pos'].get(e['sym'])
        return None if p is None else p['qty']

    out, pend = [], {}
    n_ok = len(rec_events)
    for j, e in enumerate(rec_events):      # a run that ends in a jesse exception is a prefix trace
        if e.get('exc', 'none') != 'none' and e['k'] in ('exec_end', 'cancel_end', 'minute_end', 'chunk_end', 'liqcheck_end'):
            n_ok = j
            break
    for e in rec_events[:n_ok]:
        k = e['k']
        if k == 'submit':
            cur = e.get('cur')
            out.append({'k': 'submit', 'oid': e['oid'], 'typ': e['type'], 'p': rk[float(e['price'])],
                        'q8': q8_or(abs(e['qty'])), 'qh': float(abs(e['qty'])).hex(), 't': int(e['t']), 'side': e['side'],
                        'cur': rk[float(cur)] if cur is not None else 0, 'ro': bool(e['ro']), 'pu': U(e['price']),
                        'cu': U(cur) if cur is not None else 0})
        elif k == 'exec_begin':
            # placed where execute() begins (submissions made by the hooks inside come after it); the status
            # after the call is filled in from the matching exec_end
            rec = {'k': 'exec', 'oid': e['oid'], 'pre': e['status'], 'post': e['status'], 'p': rk[float(e['price'])],
                   'q8': q8_or(abs(e['qty'])), 'qh': float(abs(e['qty'])).hex(), 't': int(e['t']), 'dq8': NOQ,
                   'sq8': q8_or(e['qty'], NOQ)}
            pend[e['oid']] = (e, rec)
            out.append(rec)
        elif k == 'exec_end':
            b, rec = pend.pop(e['oid'])
            rec['post'] = e['status']
            rec['t'] = int(e['t'])
            q0, q1 = pos_q(b), pos_q(e)
            if q0 is not None and q1 is not None and not b['ro'] and cfg.get('type') == 'futures' and rec['sq8'] != NOQ:
                rec['dq8'] = q8_or(q1 - q0, NOQ)
        elif k == 'cancel_end':
            out.append({'k': 'cancel', 'oid': e['oid'], 'pre': e['pre'], 'post': e['status'], 't': int(e['t'])})
        elif k == 'minute':        # index of the minute in the input series, from the candle's own timestamp
            out.append({'k': 'minute', 'i': int((e['candle'][0] - raw[0][0]) // MIN) + 1})
        elif k == 'chunk':
            out.append({'k': 'chunk', 'i': int((e['candles'][0][0] - raw[0][0]) // MIN) + 1, 'n': len(e['candles'])})
        elif k in ('minute_end', 'chunk_end'):     # position after matching (and after the liquidation check, if any)
            liq = e.get('liq')
            has = liq is not None and not (isinstance(liq, float) and math.isnan(liq))
            q = e.get('qty')
            out.append({'k': k, 'haspos': q is not None, 'liq': rk[float(liq)] if has else 0,
                        'q8': 0 if not q else q8_or(q, 77777777)})
        elif k in ('xliqcheck', 'xliqcheck_end'):
            out.append({'k': 'xliq' if k == 'xliqcheck' else 'xliq_end', 'q8': q8_or(e['xq'], 77777777) if e['xq'] else 0,
                        'count': e['count']})
        elif k == 'liqcheck':
            liq = e.get('liq')
            has = liq is not None and not (isinstance(liq, float) and math.isnan(liq))
            wal = e.get('acct', {}).get('wallet')
            out.append({'k': 'liqcheck', 'liq': rk[float(liq)] if has else 0, 'liqu': U(liq) if has else 0,
                        'q8': q8_or(e['qty'], 0 if e['qty'] == 0 else 77777777), 'count': int(e['count']),
                        'entry': U(e['entry']) if e['entry'] is not None else 0,
                        'wal': U(wal) if wal is not None else 0})
        elif k == 'liqcheck_end':
            wal = e.get('acct', {}).get('wallet')
            out.append({'k': 'liqcheck_end', 'q8': q8_or(e['qty'], 0 if e['qty'] == 0 else 77777777), 'count': int(e['count']),
                        'wal': U(wal) if wal is not None else 0})
    if completed and n_ok == len(rec_events):      # a run that ended in a jesse exception never flushed its last orders
        out.append({'k': 'end'})
    hdr = {'mode': mode, 'check': list(check), 'raw': [[rk[float(x)] for x in (r[1], r[2], r[3], r[4])] for r in raw],
           'lev': int(cfg.get('futures_leverage', 1)), 'fee': fee, 'passive': bool(passive),
           'levmode': 'spot' if cfg.get('type') == 'spot' else cfg.get('futures_leverage_mode', 'cross')}
    return {'id': tid, 'hdr': hdr, 'ev': out}


class Hang(Exception):
    pass


def make_cancel_race_strategy(seed):
    """a strategy that cancels orders which are still queued: it closes at market and, in the same step, cancels
    everything (the queued market order included), and it cancels half-filled entry ladders - 'never after it was
    cancelled' must hold for the flush of pending market orders and for the matching loops"""
    from jesse.strategies import Strategy

    class CancelRace(Strategy):
        def should_long(self):
            return self.index % 6 == 1

        def should_short(self):
            return self.index % 6 == 4

        def go_long(self):
            self.buy = [(1, self.price), (1, self.price - 1), (2, self.price - 2)]

        def go_short(self):
            self.sell = [(1, self.price), (1, self.price + 1), (2, self.price + 2)]

        def should_cancel_entry(self):
            return (self.index + seed) % 3 == 0

        def update_position(self):
            k = (self.index + seed) % 4
            if k == 0:
                self.broker.reduce_position_at(abs(self.position.qty), self.price, self.price)   # queues a MARKET order ...
                self.broker.cancel_all_orders()       # ... and cancels it before the flush
            elif k == 2:
                self.liquidate()
    return CancelRace


def make_nested_market_strategy(seed):
    """market orders submitted while another market order is being filled: a market entry whose on_open_position
    closes (or scales in) at market at once - 'before any later candle is processed' must hold for them too"""
    from jesse.strategies import Strategy

    class NestedMarket(Strategy):
        def should_long(self):
            return self.index % 5 == 1

        def should_short(self):
            return self.index % 5 == 3 and seed % 2 == 0

        def go_long(self):
            self.buy = 2, self.price

        def go_short(self):
            self.sell = 2, self.price

        def should_cancel_entry(self):
            return False

        def on_open_position(self, order):
            k = (self.index + seed) % 3
            if k == 0:
                self.liquidate()                                   # exit at the current price -> MARKET
            elif k == 1:
                self.broker.reduce_position_at(1, self.price, self.price)     # partial exit at market, imperative
                self.stop_loss = 1, self.price * (0.9 if self.is_long else 1.1)

        def update_position(self):
            if (self.index + seed) % 4 == 0:
                self.liquidate()
    return NestedMarket


def make_close_hook_strategy(seed):
    """orders created in the CLOSE hook: a position is stopped out / takes profit in the middle of a minute and
    on_close_position bids again one tick further along (through the real strategy layer, so that the order store is
    reset by _execute_cancel before the new order is added); the rest of the minute's path often reaches it"""
    from jesse.strategies import Strategy

    class CloseHook(Strategy):
        def should_long(self):
            return self.index % 3 == 1

        def should_short(self):
            return False

        def go_long(self):
            self.buy = 2, self.price
            self.stop_loss = 2, self.price - 1 - seed % 2
            self.take_profit = 2, self.price + 2

        def should_cancel_entry(self):
            return True

        def on_close_position(self, order):
            if order.type == 'MARKET':
                return
            if order.side == 'sell' and order.type == 'STOP':
                self.broker.buy_at(1, order.price - 1 - seed % 3)      # stopped out: bid again a little lower
            else:
                self.broker.sell_at(1, order.price + 1 + seed % 2)     # took profit: offer again a little higher

        def update_position(self):
            if self.stop_loss is None and self.take_profit is None:
                self.liquidate()                                        # a re-entry that filled: get out at market
    return CloseHook


def make_hook_market_strategy(seed):
    """a ladder of resting entries; the fill hook of the first entry closes at market (liquidate(), or an exit declared
    at the current price) while the other entries still rest further along the path"""
    from jesse.strategies import Strategy

    class HookMarket(Strategy):
        def should_long(self):
            return self.index % 4 == 1

        def should_short(self):
            return self.index % 4 == 3 and seed % 3 != 0

        def go_long(self):
            self.buy = [(1, self.price + 1), (1, self.price + 3), (1, self.price - 2)]

        def go_short(self):
            self.sell = [(1, self.price - 1), (1, self.price - 3), (1, self.price + 2)]

        def should_cancel_entry(self):
            return True

        def on_open_position(self, order):
            if (self.index + seed) % 3 != 2:
                self.liquidate()
            else:
                self.take_profit = abs(self.position.qty), self.price
    return HookMarket


def _watchdog(seconds):
    """a strategy can drive jesse's matching loop into a livelock (a hook that flips the position with a market
    order each time it opens); a run that does not end is dropped and counted, it is not a verdict of C02/C08/C09"""
    import signal

    def on_alarm(*a):
        raise Hang()
    signal.signal(signal.SIGALRM, on_alarm)
    signal.alarm(seconds)


def run_vivo(item):
    """forked worker: one real research.backtest under the Recorder -> encoded trace(s) + run statistics.
    item: dict(id, policy, cfg, walk=dict(kind, n, seed, ...), fast, tf, check, [candles], [symbols]).
    With item['symbols'] (several routes on one exchange) one trace per symbol is produced (ids id*4+k); the
    monitor is per symbol: matching of one symbol never looks at another symbol's orders."""
    from ..session import Recorder, run_backtest, lattice_walk, real_walk
    import signal
    _watchdog(item.get('timeout', 120))
    syms = item.get('symbols') or [SYM]
    raws = {}
    for k, sym in enumerate(syms):
        w = dict(item['walk'])
        kind = w.pop('kind')
        if kind == 'given':
            raws[sym] = np.array(item['candles'], dtype=float)
        else:
            w['seed'] = w['seed'] + 7919 * k
            if k:
                w['start'] = w.get('start', 100) + 37 * k
            raws[sym] = (lattice_walk if kind == 'lattice' else real_walk)(**w)
    cfg = item['cfg']
    rec = Recorder(account=True).install()
    try:
        routes = [{'symbol': sym, 'timeframe': item.get('tf', '1m')} for sym in syms]
        cls = None
        if item.get('strategy') == 'cancel_race':
            cls = make_cancel_race_strategy(item['policy']['seed'])
        elif item.get('strategy') == 'nested_market':
            cls = make_nested_market_strategy(item['policy']['seed'])
        elif item.get('strategy') == 'close_hook':
            cls = make_close_hook_strategy(item['policy']['seed'])
        elif item.get('strategy') == 'hook_market':
            cls = make_hook_market_strategy(item['policy']['seed'])
        out = run_backtest(item['policy'], cfg, {sym: raws[sym].copy() for sym in syms}, routes=routes, fast=item['fast'],
                           strategy_cls=cls)
    except Hang:
        return None, {'hang': True, 'fills': 0, 'cancels': 0, 'submits': 0, 'markets': 0, 'liq': 0, 'exc': 'hang',
                      'minutes': 0}
    finally:
        signal.alarm(0)
        rec.uninstall()
    mode = 'fast' if item['fast'] else 'step'
    done = out.get('exc') is None
    if len(syms) == 1:
        trs = [vivo_trace(item['id'], rec.ev, raws[syms[0]], cfg, mode, item['check'], completed=done)]
    else:
        trs = [vivo_trace(item['id'] * 4 + k, [e for e in rec.ev if e.get('sym') == sym], raws[sym], cfg, mode, item['check'],
                          completed=done) for k, sym in enumerate(syms)]
    evs = [e for t in trs for e in t['ev']]
    kinds = [e['k'] for e in evs]
    fills = sum(1 for e in evs if e['k'] == 'exec' and e['pre'] == 'ACTIVE' and e['post'] == 'EXECUTED')
    stats = {'fills': fills, 'cancels': kinds.count('cancel'), 'submits': kinds.count('submit'),
             'markets': sum(1 for e in evs if e['k'] == 'submit' and e['typ'] == 'MARKET'),
             'liq': (out.get('final') or {}).get('liquidations', 0), 'exc': out.get('exc'),
             'minutes': kinds.count('minute') + kinds.count('chunk')}
    return (trs[0] if len(trs) == 1 else trs), stats


# ------------------------------------------------------------------------------------------------
# C09: two-pass liquidation drivers
# ------------------------------------------------------------------------------------------------
def make_liq_strategy(p):
    """enters at step 2 (market + optional limit row that averages the entry), optional protective stop"""
    from jesse.strategies import Strategy

    class LiqS(Strategy):
        def should_long(self):
            return p['side'] == 1 and self.index == 2

        def should_short(self):
            return p['side'] == -1 and self.index == 2

        def _rows(self):
            if p.get('entry') == 'resting':          # a LIMIT entry that a later candle fills on its way to the liquidation price
                return [(p['q1'], self.price - p['side'] * p['d'])]
            rows = [(p['q1'], self.price)]
            if p['avg']:
                rows.append((p['q2'], self.price - p['side'] * p['d']))
            return rows

        def go_long(self):
            self.buy = self._rows()

        def go_short(self):
            self.sell = self._rows()

        def should_cancel_entry(self):
            return False

        def _stop(self):
            if p.get('stop') is not None and self.position.qty != 0:
                self.stop_loss = abs(self.position.qty), p['stop']
            if p.get('tp') is not None and abs(self.position.qty) > 1:
                self.take_profit = 1, p['tp']                       # partial: the position stays open

        def on_open_position(self, order):
            self._stop()

        def on_increased_position(self, order):
            self._stop()
    return LiqS


def liq_series(p, approach):
    """step candles (o,c,h,l) of a run: flat prefix, optional dip/peak that fills the averaging row, flat, then
    `approach` (list of step candles), then a flat tail; expanded to tf minutes per step"""
    P0, s = float(p['P0']), p['side']
    steps = [(P0, P0, P0, P0)] * 4
    if p['avg']:
        x = P0 - s * p['d']
        steps.append((P0, P0, max(P0, x), min(P0, x)))
    steps += [(P0, P0, P0, P0)] * 2
    steps += list(approach)
    last = steps[-1]['mins'][-1][1] if isinstance(steps[-1], dict) else steps[-1][1]
    steps += [(last, last, last, last)] * 3
    rows, m = [], p['tf']
    for st in steps:
        if isinstance(st, dict):                 # a step given minute by minute (exactly tf minutes)
            assert len(st['mins']) == m
            rows += [list(x) for x in st['mins']]
            continue
        (o, c, h, l) = st
        rows.append([o, c, h, l])
        for _ in range(m - 1):
            rows.append([c, c, c, c])
    arr = np.zeros((len(rows), 6))
    for i, r in enumerate(rows):
        arr[i] = [T0 + i * MIN] + r + [10.0]
    return arr


def liq_approach(pattern, P0, liq, side, tf=1, tp=None):
    """candles that approach the implementation's own liquidation price `liq` (a float read in pass 1)"""
    P0 = float(P0)
    inf = math.inf if side == 1 else -math.inf           # towards the entry price
    near = float(np.nextafter(liq, inf))                  # one ulp short of the liquidation price
    beyond = liq - side * max(abs(P0 - liq) * 0.5, 0.25 * min(liq, 8.0))

    def cd(o, c, ext):                                    # ext: the extreme on the losing side
        return (o, c, max(o, c, ext), min(o, c, ext))
    mid = (P0 + liq) / 2
    if pattern == 'touch':
        return [cd(P0, mid, liq)]
    if pattern == 'miss':
        return [cd(P0, mid, near)]
    if pattern == 'jump':
        return [cd(P0, mid, beyond)]
    if pattern == 'close_at':
        return [cd(P0, liq, liq)]
    if pattern == 'miss_then_touch':
        return [cd(P0, mid, near), cd(mid, mid, liq)]
    if pattern == 'gap_over':                             # the next candle opens and stays beyond the liquidation price
        far = beyond - side * 0.5
        return [cd(P0, P0, P0), (beyond, beyond, max(beyond, far), min(beyond, far))]
    if pattern == 'stay_away':
        return [cd(P0, P0, mid)]
    if pattern == 'touch_then_partial_tp':
        # the path runs through the liquidation price first and then fills a partial take-profit on the other
        # side of the open: the position is still open after matching (long: o -> low = liq -> high = tp = close)
        return [(P0, tp, max(liq, tp), min(liq, tp))]
    if pattern == 'open_and_touch_in_same_candle':
        # the position is OPENED inside the candle / chunk (resting entry at x on the way) and the same candle / chunk
        # then reaches the liquidation price of the new position
        x = tp
        m2 = (x + liq) / 2
        if tf == 1:
            return [(P0, m2, max(P0, liq), min(P0, liq))]
        return [{'mins': [(P0, x, max(P0, x), min(P0, x)), (x, m2, max(x, liq), min(x, liq))] + [(m2, m2, m2, m2)] * (tf - 2)}]
    if pattern in ('touch_new_not_old', 'touch_old_not_new'):
        # averaged entry: `liq` is the liquidation price of the averaged entry (new) or of the first fill alone (old),
        # both computed by the caller with the implementation's own expression; the two differ, the candle reaches one
        return [cd(P0, (P0 + liq) / 2, liq)]
    if pattern == 'gap_inside_chunk':
        # fast mode, chunk of several minutes: a close->open gap INSIDE the chunk jumps over the liquidation price,
        # no single minute contains it, the chunk's range does
        far = beyond - side * 0.5
        b = (beyond, beyond, max(beyond, far), min(beyond, far))
        if tf == 1:
            return [cd(P0, P0, P0), b]
        return [{'mins': [(P0, P0, P0, P0)] + [b] + [(beyond, beyond, beyond, beyond)] * (tf - 2)}]
    raise ValueError(pattern)


def make_pair_strategy(p):
    """two routes in one isolated-margin session.  The victim opens at market at step 2 and is liquidated later;
    the follower holds a position with resting exits and a resting far entry and - when p['react'] - leaves at
    market from on_route_close_position (a reduce-only MARKET order queued while the victim's check runs)"""
    from jesse.strategies import Strategy

    class Pair(Strategy):
        def _victim(self):
            return self.symbol == p['victim']

        def should_long(self):
            return self.index == 2 and (p['side'] == 1 or not self._victim())

        def should_short(self):
            return self.index == 2 and p['side'] == -1 and self._victim()

        def go_long(self):
            if self._victim():
                self.buy = p['qv'], self.price
            else:
                self.buy = [(2, self.price), (1, self.price * 0.8)]
                self.take_profit = 2, self.price * 1.5
                self.stop_loss = 2, self.price * 0.6

        def go_short(self):
            self.sell = p['qv'], self.price

        def should_cancel_entry(self):
            return False

        def on_route_close_position(self, strategy):
            if not self._victim() and p['react'] and self.position.is_open:
                self.liquidate()
    return Pair


def run_liq_pair(item):
    """forked worker: victim + follower on one isolated-margin exchange; the victim's candle touches (or jumps
    over) the liquidation price of its entry (expression of Position.liquidation_price on the entry price P0).
    Returns ([victim trace, follower trace], stats)."""
    from ..session import Recorder, run_backtest
    import signal
    p, cfg = item['p'], item['cfg']
    V, F = p['victim'], p['follower']
    L, P0, s, m = cfg['futures_leverage'], float(p['P0']), p['side'], p['tf']
    liq = P0 * (1 - 1 / L + 0.004) if s == 1 else P0 * (1 + 1 / L - 0.004)
    ext = liq if p['how'] == 'touch' else liq - s * abs(P0 - liq) * 0.4
    steps_v = [(P0, P0, P0, P0)] * 6 + [(P0, (P0 + liq) / 2, max(P0, ext), min(P0, ext))] + [((P0 + liq) / 2,) * 4] * 3
    steps_f = [(100.0, 100.0, 100.0, 100.0)] * 6 + [(100.0, 103.0, 103.0, 100.0)] + [(103.0, 103.0, 103.0, 103.0)] * 3

    def series(steps):
        rows = []
        for (o, c, h, l) in steps:
            rows.append([o, c, h, l])
            rows += [[c, c, c, c]] * (m - 1)
        return np.array([[T0 + i * MIN] + r + [10.0] for i, r in enumerate(rows)], dtype=float)
    raws = {V: series(steps_v), F: series(steps_f)}
    order = [F, V] if p['follower_first'] else [V, F]
    tfs = {1: '1m', 3: '3m'}[m]
    rec = Recorder(account=True).install()
    _watchdog(120)
    try:
        out = run_backtest(None, cfg, {sym: raws[sym].copy() for sym in order},
                           routes=[{'symbol': sym, 'timeframe': tfs} for sym in order], fast=item['fast'],
                           strategy_cls=make_pair_strategy(p))
    finally:
        signal.alarm(0)
        rec.uninstall()
    mode = 'fast' if item['fast'] else 'step'
    done = out.get('exc') is None
    trs = [vivo_trace(item['id'] * 4, rec.ev, raws[V], cfg, mode, ['liq', 'market'], completed=done, sym=V),
           vivo_trace(item['id'] * 4 + 1, rec.ev, raws[F], cfg, mode, ['liq', 'market'], completed=done, sym=F,
                      passive=not p['react'])]
    fin = out.get('final') or {}
    stats = {'liq': fin.get('liquidations', 0), 'exc': out.get('exc'),
             'follower_qty_end': (fin.get('pos') or {}).get('%s-%s' % (cfg['exchange'], F), {}).get('qty'),
             'follower_markets': sum(1 for e in trs[1]['ev'] if e['k'] == 'submit' and e['typ'] == 'MARKET')}
    return trs, stats


LIQ_PATTERNS = ['touch', 'miss', 'jump', 'close_at', 'miss_then_touch', 'gap_over', 'stay_away', 'touch_then_partial_tp',
                'gap_inside_chunk', 'open_and_touch_in_same_candle', 'touch_new_not_old', 'touch_old_not_new']


def run_liq_case(item):
    """forked worker.  pass 1: run the prefix only and read the implementation's own liquidation price;
    pass 2: craft the approach around exactly that float and record the run.  Returns (trace, stats)."""
    from ..session import Recorder, run_backtest
    p = item['p']
    cfg = item['cfg']
    cls = make_liq_strategy(p)
    routes = [{'symbol': SYM, 'timeframe': {1: '1m', 3: '3m', 5: '5m'}[p['tf']]}]

    def one(series):
        rec = Recorder(account=True).install()
        _watchdog(120)
        try:
            out = run_backtest(None, cfg, {SYM: series.copy()}, routes=routes, fast=item['fast'], strategy_cls=cls)
        finally:
            import signal
            signal.alarm(0)
            rec.uninstall()
        return rec, out
    first = []
    if item['pattern'] == 'open_and_touch_in_same_candle':
        p = dict(p, entry='resting', avg=False, stop_rel=None, d=max(p['d'], 0.002 * p['P0']))
        cls = make_liq_strategy(p)
        x = float(p['P0'] - p['side'] * p['d'])
        first = [(float(p['P0']), x, max(float(p['P0']), x), min(float(p['P0']), x))]     # pass 1: fill the entry, nothing else
    rec1, out1 = one(liq_series(p, first))
    opened = [e for e in rec1.ev if e['k'] == 'liqcheck' and e['qty'] != 0]
    if not opened:
        return None, {'exc': out1.get('exc'), 'why': 'position never opened in pass 1'}
    last = opened[-1]
    entry = last['entry']
    liq = last['liq']
    if liq is None or (isinstance(liq, float) and math.isnan(liq)):
        # cross / spot: aim at the price an isolated position of this leverage would be liquidated at
        L = p['aim_lev']
        liq = entry * (1 - 1 / L + 0.004) if last['qty'] > 0 else entry * (1 + 1 / L - 0.004)
    if item['pattern'] in ('touch_new_not_old', 'touch_old_not_new'):
        # not read from the implementation: the expression of Position.liquidation_price on the logged entry price
        # (averaged) resp. on the price of the first fill; for a long the old one lies above the new one
        L = p['aim_lev']
        e = entry if item['pattern'] == 'touch_new_not_old' else float(p['P0'])
        liq = e * (1 - 1 / L + 0.004) if last['qty'] > 0 else e * (1 + 1 / L - 0.004)
    if liq <= 0:
        return None, {'exc': None, 'why': 'liquidation price not positive'}
    if p.get('stop_rel') is not None:                     # protective stop: fraction of the way entry -> liq (>1: beyond)
        p = dict(p, stop=float(entry + (liq - entry) * p['stop_rel']))
        if p['stop'] <= 0:
            return None, {'exc': None, 'why': 'stop not positive'}
        cls = make_liq_strategy(p)
    if item['pattern'] == 'touch_then_partial_tp':        # partial take-profit on the winning side of the entry
        p = dict(p, tp=float(p['P0'] + p['side'] * 0.05 * abs(p['P0'] - liq)), q1=max(2, p['q1']))
        if p.get('stop') is not None and (p['stop'] - liq) * p['side'] > 0:
            p['stop'] = None                               # a stop in front of the liquidation price would close first
        cls = make_liq_strategy(p)
        item = dict(item, p=p)
    aux = float(p['P0'] - p['side'] * p['d']) if p.get('entry') == 'resting' else p.get('tp')
    series = liq_series(p, liq_approach(item['pattern'], p['P0'], liq, p['side'], tf=p['tf'], tp=aux))
    rec2, out2 = one(series)
    tr = vivo_trace(item['id'], rec2.ev, series, cfg, 'fast' if item['fast'] else 'step', ['liq'],
                    completed=out2.get('exc') is None)
    checks = [e for e in rec2.ev if e['k'] == 'liqcheck']
    near = sum(1 for e in checks if e['qty'] != 0)
    stats = {'liq': (out2.get('final') or {}).get('liquidations', 0), 'exc': out2.get('exc'), 'open_checks': near,
             'liq_price': liq, 'entry': entry, 'checks': len(checks)}
    return tr, stats


# ------------------------------------------------------------------------------------------------
# C08 split table / C02 gap normalisation table: the real functions on lattice and real-valued inputs
# ------------------------------------------------------------------------------------------------
def _rank_case(vals):
    u = sorted(set(vals))
    return {v: i + 1 for i, v in enumerate(u)}


def split_event(cd, p):
    """call the real split_candle on candle cd=(o,c,h,l) (floats) at price p; ranks over the values of the call"""
    from jesse.services.candle import split_candle
    arr = np.array([T0, cd[0], cd[1], cd[2], cd[3], 7.0])
    res = split_candle(arr, p)
    if res is None:
        rk = _rank_case(list(cd) + [p])
        return {'k': 'split', 'cd': [rk[x] for x in cd], 'p': rk[p], 'e': [0, 0, 0, 0], 'r': [0, 0, 0, 0], 'none': True}
    e, r = res
    ev = [float(e[1]), float(e[2]), float(e[3]), float(e[4])]
    rv = [float(r[1]), float(r[2]), float(r[3]), float(r[4])]
    rk = _rank_case(list(cd) + [p] + ev + rv)
    return {'k': 'split', 'cd': [rk[x] for x in cd], 'p': rk[p], 'e': [rk[x] for x in ev], 'r': [rk[x] for x in rv],
            'none': False}


def jump_event(pc, cd):
    from jesse.modes.backtest_mode import _get_fixed_jumped_candle
    prev = np.array([T0, pc, pc, pc, pc, 1.0])
    cur = np.array([T0 + MIN, cd[0], cd[1], cd[2], cd[3], 1.0])
    f = _get_fixed_jumped_candle(prev, cur.copy())
    fv = [float(f[1]), float(f[2]), float(f[3]), float(f[4])]
    rk = _rank_case(list(cd) + [pc] + fv)
    return {'k': 'jump', 'cd': [rk[x] for x in cd], 'pc': rk[pc], 'f': [rk[x] for x in fv]}


def table_call(call):
    """call = ['split', o, c, h, l, p] | ['jump', pc, o, c, h, l] (floats) -> event"""
    if call[0] == 'split':
        return split_event(tuple(call[1:5]), call[5])
    return jump_event(call[1], tuple(call[2:6]))


def split_table(K, n_real, seed, jump_K=5):
    """calls: every (candle, price in range) of lattice K; n_real real-valued cases (every ordinal arrangement
    reached through random monotone maps of lattice cases, plus free random candles); every (previous close,
    candle) of lattice jump_K for the gap normalisation.  Returns (events, counts, calls)."""
    rng = random.Random(seed)
    calls = []
    lattice = [(cd, p) for cd in candles_on(K) for p in range(cd[3], cd[2] + 1)]
    for cd, p in lattice:
        calls.append(['split'] + [float(x) for x in cd] + [float(p)])
    n_lat = len(calls)
    for i in range(n_real):
        if i % 4 != 3:
            cd, p = lattice[rng.randrange(len(lattice))]
            V = monotone_map(K, rng, 'real')
            calls.append(['split'] + [V[x] for x in cd] + [V[p]])
        else:
            o = rng.uniform(1, 1000)
            c = o * (1 + rng.gauss(0, 0.01)) if rng.random() < 0.9 else o
            h = max(o, c) * (1 + abs(rng.gauss(0, 0.005)) * (rng.random() < 0.8))
            l = min(o, c) * (1 - abs(rng.gauss(0, 0.005)) * (rng.random() < 0.8))
            p = rng.choice([o, c, h, l, rng.uniform(l, h), rng.uniform(l, h)])
            calls.append(['split', o, c, h, l, p])
    n_jump = 0
    for cd in candles_on(jump_K):
        for pc in range(1, jump_K + 1):
            calls.append(['jump', float(pc)] + [float(x) for x in cd])
            n_jump += 1
            if rng.random() < 0.3:
                V = monotone_map(jump_K, rng, 'real')
                calls.append(['jump', V[pc]] + [V[x] for x in cd])
                n_jump += 1
    ev = [table_call(c) for c in calls]
    keys = set((e['k'], tuple(e['cd']), e.get('p', e.get('pc'))) for e in ev)
    return ev, {'lattice_cases': n_lat, 'real_cases': n_real, 'jump_cases': n_jump,
                'distinct_ordinal_cases': len(keys)}, calls


def liq_price_reads(item):
    """forked worker: direct reads of the real Position properties.  item = (leverages, mode, typ) -> events.
    One object-level session; the leverage is what the position reads through its strategy (the exchange's
    futures_leverage), set per case."""
    from ..session import ObjSession
    levs, mode, typ = item
    s = ObjSession(typ=typ, fee=0.0, lev=levs[0], mode=mode, balance=1e12, price=1000.0, cancel_on_close=False)
    p = s.pos[SYM]
    exch = s.exchange
    evs = []
    for lev in levs:
        if typ == 'futures':
            exch.futures_leverage = lev
            p.strategy.leverage = lev
        for side, first, second in ((1, 1000.0, None), (-1, 1000.0, None), (1, 731.25, 702.5), (-1, 0.8125, 0.8750),
                                    (1, 64000.0, 61000.5), (-1, 3.0, 3.5)):
            if typ == 'spot' and side == -1:
                continue
            p.qty, p.previous_qty, p.entry_price = 0, 0, None
            s.store.completed_trades.tempt_trades.clear()
            s.set_price(SYM, first)
            o = s.order(SYM, 'buy' if side == 1 else 'sell', 'MARKET', 2.0, first)
            o.execute()
            _ = p.liquidation_price                      # the simulators read it after every minute
            if second is not None:
                s.set_price(SYM, second)
                o2 = s.order(SYM, 'buy' if side == 1 else 'sell', 'LIMIT', 1.0, second)
                o2.execute()
            e, liq, b = float(p.entry_price), p.liquidation_price, float(p.bankruptcy_price)
            has = liq is not None and not math.isnan(float(liq))
            vals = [e, b] + ([float(liq)] if has else [])
            rk = _rank_case(vals)
            unit = 10.0 ** (math.floor(math.log10(e)) - 5)        # 6 significant digits of the entry price
            evs.append({'lev': lev, 'mode': p.mode, 'side': 'long' if side == 1 else 'short', 'hasliq': bool(has),
                        're': rk[e], 'rb': rk[b], 'rl': rk[float(liq)] if has else 0,
                        'eu': encode.scaled(e, unit), 'bu': encode.scaled(b, unit), 'avg': second is not None,
                        'lu': encode.scaled(float(liq), unit) if has else 0})
    return evs
