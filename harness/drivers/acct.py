"""Object-level driver for the account properties C03 / C04 / C05: performs submit / cancel / cancel-all /
execute / flush / prune / set-price operations on REAL jesse objects (Order, Position, Futures/SpotExchange,
OrdersState, ClosedTrades, the Sandbox driver) and records, after every call, the projected state that
TraceFutures.tla / TraceSpot.tla judge.  Nothing here decides anything: floats are only encoded."""
from fractions import Fraction
from ..core import Machinery
from ..session import ObjSession

SYM = {"A": "BTC-USDT", "B": "ETH-USDT", "C": "LTC-USDT"}
TYP_R = {"MARKET": "MKT", "LIMIT": "LMT", "STOP": "STP"}
RSYM = {v: k for k, v in SYM.items()}
TYP = {"MKT": "MARKET", "LMT": "LIMIT", "STP": "STOP"}
ST = {"ACTIVE": "A", "EXECUTED": "E", "CANCELED": "C"}
LIM = 2 ** 31 - 1


def rat(x, maxden=20000, scale=1):
    """float -> [num, den]: the rational with a small denominator next to x (the float error of a handful of
    operations is 1e-13; two rationals with denominators <= 20000 are >= 2.5e-9 apart).  A value that is not
    close to such a rational is encoded as it is (6 decimals) and will simply not match the specification."""
    if x is None:
        return [0, 1]
    x = float(x)
    if x != x or x in (float("inf"), float("-inf")):
        return [-LIM, 1]
    xs = Fraction(x) * scale               # futures with decimal quantities: money is logged in units of 1/QD
    f = xs.limit_denominator(maxden)
    if abs(f - xs) > Fraction(1, 10 ** 9) * max(1, abs(xs)):
        f = Fraction(int(round(xs * 10 ** 6)), 10 ** 6)
    if abs(f.numerator) > LIM:
        return [LIM if f > 0 else -LIM, 1]
    return [f.numerator, f.denominator]


def units(x, per_unit, off=None, name=""):
    """float -> integer count of 1/per_unit; a non-negative value off the lattice is rounded and reported in `off`
    (the trace spec turns that into a verdict); negative values only matter by their sign"""
    if x is None:
        return 0
    v = Fraction(float(x)) * per_unit
    n = int(round(v))
    if off is not None and v >= 0 and abs(v - n) > Fraction(1, 10 ** 6):
        off.append(name)
    if abs(n) > LIM:
        return LIM if n > 0 else -LIM
    return n


class AcctSession:
    def __init__(self, kind, syms=("A",), fee=(0, 1), lev=1, start=100, price0=None, cancel_on_close=True,
                 mode="cross", qd=1):
        from jesse.exchanges import Sandbox
        self.kind = kind
        self.syms = list(syms)
        self.fee_num, self.fee_den = fee
        self.K = self.fee_den
        self.QD = qd          # futures: quantities are multiples of 1/QD (the account is homogeneous in the quantity
        #                       scale, so the integer model sees quantity * QD and money * QD)
        price0 = price0 or {s: 10 for s in syms}
        self.sess = ObjSession(typ=kind, fee=self.fee_num / self.fee_den, lev=lev, mode=mode, balance=float(start),
                               symbols=tuple(SYM[s] for s in syms), price=float(price0[self.syms[0]]),
                               cancel_on_close=cancel_on_close)
        for s in syms:
            self.sess.set_price(SYM[s], price0[s])
        self.ex = self.sess.ex
        self.exchange = self.sess.exchange
        self.store = self.sess.store
        self.sandbox = Sandbox(self.ex)
        self.orders = []                  # creation order; id = index + 1
        self.ordinal = {}                 # id(order object) -> ordinal

    # ---------------------------------------------------------------- operations
    def _qty(self, q):
        return q / self.QD if self.kind == "futures" else q / self.K

    def apply(self, op, snap=True):
        from jesse import exceptions
        from jesse.enums import order_types
        k = op["op"]
        ev = {kk: vv for kk, vv in op.items() if kk != "op"}
        ev["k"] = k
        ev["exc"] = "none"
        try:
            if k == "submit":
                sym = SYM[op["sym"]]
                qty, price = self._qty(op["q"]), float(op["p"])
                ev["acc"] = True
                try:
                    if op["typ"] == "MKT":
                        o = self.sandbox.market_order(sym, qty, price, op["side"], op["ro"])
                    elif op["typ"] == "LMT":
                        o = self.sandbox.limit_order(sym, qty, price, op["side"], op["ro"])
                    else:
                        o = self.sandbox.stop_order(sym, qty, price, op["side"], op["ro"])
                    self.ordinal[id(o)] = len(self.orders) + 1
                    self.orders.append(o)
                except (exceptions.InsufficientMargin, exceptions.InsufficientBalance) as e:
                    ev["acc"] = False
                    ev["exc"] = "none"
                    ev["rejexc"] = type(e).__name__
            elif k == "cancel":
                self.orders[op["id"] - 1].cancel()
            elif k == "exec":
                o = self.orders[op["id"] - 1]
                if o.is_active and o.type != order_types.MARKET:
                    self.sess.pos[o.symbol].current_price = float(o.price)      # as the simulator does before a fill
                o.execute()
            elif k == "flush":
                self.store.orders.execute_pending_market_orders()
            elif k == "cancelall":
                self.sandbox.cancel_all_orders(SYM[op["sym"]])
            elif k == "prune":
                self.store.orders.update_active_orders(self.ex, SYM[op["sym"]])
            elif k == "price":
                self.sess.set_price(SYM[op["sym"]], op["p"])
            else:
                raise Machinery("unknown op %r" % (op,))
        except Machinery:
            raise
        except Exception as e:           # the code raised where the specification expects a normal return
            ev["exc"] = type(e).__name__
        if snap:
            ev["post"] = self.snapshot()
        return ev

    # ---------------------------------------------------------------- observation
    def snapshot(self):
        return snapshot_from_store(self.kind, self.ex, self.syms, self.K, self.orders, self.ordinal, self.QD)


def snapshot_from_store(kind, ex, syms, K, orders, ordinal, QD=1, cache=None):
    """the projected state of a session read from jesse's store (object-level sessions and real backtests alike):
    order records in creation order, registries as ordinals, balances / position / tables as exact encodings"""
    import jesse.helpers as jh
    from jesse.store import store as st
    e = st.exchanges.storage[ex]
    pos = {s: st.positions.storage["%s-%s" % (ex, SYM[s])] for s in syms}
    rtyp = {v: k for k, v in TYP.items()}

    def ids(objs):
        return [ordinal.get(id(o), 0) for o in objs]

    off = []

    def orec(o):
        # long sessions: the record of an order is shared between snapshots as long as nothing observable changed
        key = (id(o), o.status, o.qty, o.price, o.reduce_only, o.side, o.type)
        if cache is not None and key in cache:
            return cache[key]
        r = {"sym": RSYM.get(o.symbol, o.symbol), "side": o.side, "typ": rtyp.get(o.type, o.type),
             "q": units(abs(o.qty), QD if kind == "futures" else K, off, "order-qty"),
             "p": units(o.price, 1, off, "order-price"),
             "ro": bool(o.reduce_only), "st": ST.get(str(o.status).upper(), str(o.status))}
        if cache is not None and not off:
            cache[key] = r
        return r
    d = {"ord": [orec(o) for o in orders], "pending": ids(st.orders.to_execute)}
    d["trades"] = [ids(t.orders) for t in st.completed_trades.trades]
    d["alist"], d["areported"], d["acount"], d["temp"], d["cur"] = {}, {}, {}, {}, {}
    for s in syms:
        sym = SYM[s]
        raw = list(st.orders.get_active_orders(ex, sym))
        d["alist"][s] = ids(raw)
        d["areported"][s] = ids([o for o in raw if o.is_active])
        d["acount"][s] = int(st.orders.count_active_orders(ex, sym))
        t = st.completed_trades.tempt_trades.get(jh.key(ex, sym))
        d["temp"][s] = ids(t.orders) if t is not None else []
        d["cur"][s] = units(pos[s].current_price, 1, off, "current-price")
    if kind == "futures":
        d["off"] = off
        d["wallet"] = rat(e.assets[e.settlement_currency], scale=QD)
        d["margin"] = rat(e.available_margin, scale=QD)
        d["pq"], d["entry"], d["pnl"], d["resB"], d["resS"] = {}, {}, {}, {}, {}
        for s in syms:
            p = pos[s]
            b = jh.base_asset(SYM[s])
            d["pq"][s] = units(p.qty, QD, off, "position-qty")
            d["entry"][s] = rat(p.entry_price)
            d["pnl"][s] = rat(p.pnl, scale=QD)
            d["resB"][s] = [[units(abs(r[0]), QD), units(r[1], 1)] for r in e.buy_orders[b][:].tolist()]
            d["resS"][s] = [[units(abs(r[0]), QD), units(r[1], 1)] for r in e.sell_orders[b][:].tolist()]
    else:
        d["quote"] = units(e.assets[e.settlement_currency], K * K, off, "quote")
        d["base"], d["pos"], d["stopSum"], d["limitSum"] = {}, {}, {}, {}
        for s in syms:
            sym = SYM[s]
            d["base"][s] = units(e.assets[jh.base_asset(sym)], K, off, "base")
            d["pos"][s] = units(pos[s].qty, K, off, "position")
            d["stopSum"][s] = units(e.stop_orders_sum.get(sym, 0), K, off, "stop-sell-sum")
            d["limitSum"][s] = units(e.limit_orders_sum.get(sym, 0), K, off, "limit-sell-sum")
        d["off"] = off
    return d


def _session(kind, hdr):
    return AcctSession(kind, syms=hdr["syms"], fee=(hdr["FeeNum"], hdr["FeeDen"]), lev=hdr.get("Lev", 1),
                       start=hdr["Start"], price0=hdr["cur0"], cancel_on_close=hdr["CancelOnClose"], qd=hdr.get("QD", 1),
                       mode=hdr.get("mode", "cross"))


def run_history(kind, hdr, ops, last_only=False):
    """one session on real objects: apply ops, return the trace dict (without id).
    last_only: the trace judges only the last operation (pre-state = the state observed before it); used for the
    replay of TLC transitions, where every prefix is the subject of its own trace.  If the code leaves the
    witness earlier (rejection / exception in the prefix) the full trace is recorded instead."""
    hdr = dict(hdr)
    if last_only and len(ops) > 1:
        s = _session(kind, hdr)
        ok = True
        for op in ops[:-1]:
            ev = s.apply(op, snap=False)
            if ev["exc"] != "none" or (ev["k"] == "submit" and not ev["acc"]):
                ok = False
                break
        if ok:
            hdr["judgeinit"] = False
            init = s.snapshot()
            return {"hdr": hdr, "init": init, "ev": [s.apply(ops[-1])], "skipped": len(ops) - 1}
    hdr["judgeinit"] = True
    s = _session(kind, hdr)
    init = s.snapshot()
    evs = []
    for op in ops:
        ev = s.apply(op)
        evs.append(ev)
        if ev["k"] == "submit" and not ev["acc"]:
            break                       # a rejected submission ends the sequence
        if ev["exc"] != "none":
            break
    return {"hdr": hdr, "init": init, "ev": evs, "skipped": 0}


def replay_chunk(arg):
    """(kind, hdr_base, [(id, cur0, hist)], last_only) -> traces; module-level for run_isolated"""
    kind, inst, items, last_only = arg
    out = []
    for tid, cur0, hist in items:
        tr = run_history(kind, inst_hdr(kind, inst, cur0), hist, last_only=last_only)
        tr["id"] = tid
        out.append(tr)
    return out


def replay_edges(kind, inst, edges, first_id=1, last_only=True, procs=12):
    """replay TLC witnesses on real objects in forked children"""
    from ..session import run_isolated
    items = [(first_id + i, e["cur0"], e["hist"]) for i, e in enumerate(edges)]
    if not items:
        return []
    n = max(1, min(procs, len(items) // 200 + 1))
    chunks = [items[i::n] for i in range(n)]
    res = run_isolated(replay_chunk, [(kind, inst, ch, last_only) for ch in chunks], procs=n)
    out = []
    for r in res:
        if isinstance(r, tuple) and r and r[0] == "EXC":
            raise Machinery("replay child failed: %s" % r[1])
        out += r
    out.sort(key=lambda t: t["id"])
    return out


# ------------------------------------------------------------------------------------------------
# TLC side: configurations, edge export, trace validation grouped by configuration
# ------------------------------------------------------------------------------------------------
MAXJVM = 8          # concurrent trace-validation JVMs
HEAP = "2g"
MAXWEIGHT = 250000  # order records per trace file (about 25 MB of JSON)


def tla_set(xs):
    return "{" + ", ".join(('"%s"' % x) if isinstance(x, str) else str(x) for x in xs) + "}"


def tla_bool(b):
    return "TRUE" if b else "FALSE"


FUT_INVARIANTS = ["ReservedBag", "MarginIsReference", "FlatHasNoEntry", "ActiveReported", "ExecutedInExactlyOneTrade",
                  "NoReduceOnlyWhenFlat"]
FUT_PROPERTIES = ["MTMStep", "ReduceOnlyNeverIncreasesOrFlips", "AvgCostStep", "FlushPerFill", "RejectIff", "SubmitCancelRestores",
                  "FinalIsFinal", "FinalOpsAreNoOps"]
SPOT_INVARIANTS = ["NonNegative", "PositionIsBase", "NoShort", "SumsAreActiveSells", "ActiveReported",
                   "ExecutedInExactlyOneTrade"]
SPOT_PROPERTIES = ["Conservation", "CashStep", "FlushPerFill", "ReserveRelease", "RejectIff", "FinalIsFinal", "FinalOpsAreNoOps"]


def model_cfg(kind, inst, export=False, check=True, view="ViewAcct", invariants=None, properties=None):
    """inst: dict(syms, qtys, prices, lev, fee=(n,d), start, depth, maxact, maxord, dups, coc, [quirks])"""
    c = ["SPECIFICATION Spec", "VIEW %s" % view, "CONSTRAINT Depth", "CHECK_DEADLOCK FALSE", "CONSTANTS",
         " Syms = %s" % tla_set(inst["syms"]), " Qtys = %s" % tla_set(inst["qtys"]), " Prices = %s" % tla_set(inst["prices"]),
         " FeeNum = %d FeeDen = %d Start = %d" % (inst["fee"][0], inst["fee"][1], inst["start"]),
         " MaxDepth = %d MaxAct = %d MaxOrd = %d" % (inst["depth"], inst["maxact"], inst["maxord"]),
         " Dups = %s CancelOnClose = %s Export = %s" % (tla_bool(inst["dups"]), tla_bool(inst["coc"]), tla_bool(export))]
    if kind == "futures":
        c.append(" Lev = %d" % inst["lev"])
        invs, props = FUT_INVARIANTS, FUT_PROPERTIES
    else:
        c.append(" QuirkDoubleRelease = %s QuirkFlip = %s" % (tla_bool(inst.get("qdr", False)), tla_bool(inst.get("qflip", False))))
        invs, props = SPOT_INVARIANTS, SPOT_PROPERTIES
    if check:
        c += ["INVARIANT %s" % i for i in (invariants if invariants is not None else invs)]
        c += ["PROPERTY %s" % p for p in (properties if properties is not None else props)]
    return "\n".join(c) + "\n"


def trace_cfg(kind, key, proj="acct"):
    """key: (syms tuple, lev, feenum, feeden, coc)"""
    syms, lev, fn, fd, coc = key
    c = ["SPECIFICATION TSpec", "INVARIANT Report", "CHECK_DEADLOCK FALSE", "CONSTANTS", ' Proj = "%s"' % proj,
         " Syms = %s FeeNum = %d FeeDen = %d CancelOnClose = %s" % (tla_set(syms), fn, fd, tla_bool(coc)),
         " Qtys = {1} Prices = {1} Start = 0 MaxDepth = 0 MaxAct = 0 MaxOrd = 0 Dups = TRUE Export = FALSE"]
    if kind == "futures":
        c.append(" Lev = %d" % lev)
    else:
        c.append(" QuirkDoubleRelease = FALSE QuirkFlip = FALSE")       # conformance is against the intended account
    return "\n".join(c) + "\n"


def hdr_key(h):
    return (tuple(h["syms"]), h.get("Lev", 1), h["FeeNum"], h["FeeDen"], bool(h["CancelOnClose"]))


def validate(kind, traces, scratch, parts_total=14, timeout=1500, proj="acct"):
    """group traces by configuration, one batch of single-worker TLC runs per group.
    proj: "acct" (C03/C04 projection) or "life" (C05 projection).
    Returns ({id: (events_consumed, verdict, [named deviations])}, [TLCResult], {id: [knife steps]})"""
    import os
    from .. import tlc
    module = "TraceFutures" if kind == "futures" else "TraceSpot"
    groups = {}
    for t in traces:
        evs = t["ev"]
        if t["hdr"].get("haspre"):
            # in-vivo: the pre-state of a call is usually the post-state of the previous one - then it is not repeated
            evs, prev = [], t["init"]
            for e in t["ev"]:
                if e["pre"] == prev:
                    e2 = {k: v for k, v in e.items() if k != "pre"}
                    e2["sp"] = True
                else:
                    e2 = dict(e, sp=False)
                evs.append(e2)
                prev = e["post"]
        groups.setdefault(hdr_key(t["hdr"]), []).append({"id": t["id"], "hdr": t["hdr"], "init": t["init"], "ev": evs})
    # one single-worker TLC per (configuration, part); at most MAXJVM JVMs at a time, each with a small heap
    # (the machine is shared: many 8g-heap JVMs side by side have been OOM-killed)
    from .. import encode
    from concurrent.futures import ThreadPoolExecutor
    total = max(1, len(traces))
    jobs = []
    for gi, (key, ts) in enumerate(sorted(groups.items(), key=lambda kv: str(kv[0]))):
        d = os.path.join(scratch, "tv-%s-%d-%d" % (module, gi, len(os.listdir(scratch))))
        os.makedirs(d, exist_ok=True)
        cfgp = os.path.join(d, module + ".cfg")
        with open(cfgp, "w") as f:
            f.write(trace_cfg(kind, key, proj))
        # parts by weight (order records written): long in-vivo traces are few but big, and TLC's JSON reader needs
        # memory in proportion to the file
        wts = [sum(len(e["post"]["ord"]) + (0 if e.get("sp", True) else len(e["pre"]["ord"])) + 12 for e in t["ev"]) + 20 for t in ts]
        parts = max(1, min(len(ts), max(int(round(parts_total * len(ts) / total)) or 1, -(-sum(wts) // MAXWEIGHT))))
        bins = [[0, []] for _ in range(parts)]
        for w, t in sorted(zip(wts, ts), key=lambda x: -x[0]):
            bmin = min(bins, key=lambda x: x[0])
            bmin[0] += w
            bmin[1].append(t)
        for pi in range(parts):
            ch = bins[pi][1]
            if not ch:
                continue
            pd = os.path.join(d, "p%d" % pi)
            os.makedirs(pd, exist_ok=True)
            path = os.path.join(pd, "traces.json")
            encode.dump({"traces": ch}, path)
            jobs.append(dict(module=module, cfg_file=cfgp, workers=1, env={"TRACE_FILE": path}, scratch=pd,
                             timeout=timeout, allow_violation=False, heap=HEAP))
    with ThreadPoolExecutor(max_workers=MAXJVM) as ex:
        results = list(ex.map(lambda j: tlc.run(**j), jobs))
    verdicts, knife = {}, {}
    for r in results:
        for t in tlc.tagged(r, "VERDICT"):
            verdicts[t[1]] = tuple(t[2:])
        for t in tlc.tagged(r, "KNIFE"):
            knife.setdefault(t[1], []).append(t[2])
    missing = [t["id"] for t in traces if t["id"] not in verdicts]
    if missing:
        raise Machinery("no verdict for %d traces (first ids %s) in %s\n%s" % (len(missing), missing[:5], module,
                                                                            results[0].raw[-2000:]))
    return verdicts, results, knife


def export_edges(kind, inst, timeout=900, workers=1, view="ViewAcct"):
    """every transition of the instance with a shortest witness history (VIEW hides the history)"""
    import json
    from .. import tlc
    module = "Futures" if kind == "futures" else "Spot"
    r = tlc.run(module, cfg_text=model_cfg(kind, inst, export=True, check=False, view=view), workers=workers, timeout=timeout)
    return [json.loads(e[1]) for e in tlc.tagged(r, "EDGE")], r


def inst_hdr(kind, inst, cur0):
    h = {"syms": list(inst["syms"]), "FeeNum": inst["fee"][0], "FeeDen": inst["fee"][1], "Start": inst["start"],
         "CancelOnClose": bool(inst["coc"]), "cur0": cur0}
    if kind == "futures":
        h["Lev"] = inst["lev"]
        h["mode"] = inst.get("mode", "cross")
    return h


# ------------------------------------------------------------------------------------------------
# T: long random legal histories, generated while driving the real objects.  The generator only chooses
# inputs (which operation next); legality is read from the observable state.  For futures it keeps the
# rationals small enough for TLC's 32-bit integers (|position| <= 6, entry denominators dividing 60).
# ------------------------------------------------------------------------------------------------
def _predict_fill(q0, e0, side, q, p, ro):
    """reference position update (input planning only): returns (q1, e1)"""
    sq = q if side == "buy" else -q
    if q0 == 0:
        return sq, Fraction(p)
    if q0 + sq == 0:
        return 0, Fraction(0)
    if q0 * sq > 0:
        if ro:
            return q0, e0
        return q0 + sq, (Fraction(q * p) + e0 * abs(q0)) / (q + abs(q0))
    if abs(sq) > abs(q0):
        return (0, Fraction(0)) if ro else (q0 + sq, Fraction(p))
    return q0 + sq, e0


def random_history(kind, hdr, seed, nops, dups=0.0, prices=(6, 7, 8, 9, 10, 11, 12, 14, 16), qtys=(1, 2, 3),
                   p_reject_probe=0.03):
    """one random session; returns the trace dict (full trace, judged from the initial state)"""
    import random
    rng = random.Random(seed)
    hdr = dict(hdr)
    hdr["judgeinit"] = True
    s = _session(kind, hdr)
    K = s.K
    QU = s.QD if kind == "futures" else K          # quantity units per 1.0
    init = s.snapshot()
    evs = []
    maxpos = 6

    def state():
        d = {}
        for sy in s.syms:
            p = s.sess.pos[SYM[sy]]
            e = Fraction(p.entry_price).limit_denominator(20000) if p.entry_price else Fraction(0)
            d[sy] = (units(p.qty, QU), e)
        return d

    def active(sy=None):
        return [i + 1 for i, o in enumerate(s.orders) if o.is_active and (sy is None or o.symbol == SYM[sy])]

    def fut_fill_ok(ids):
        """would executing these orders in sequence keep the numbers small?"""
        st = state()
        for i in ids:
            o = s.orders[i - 1]
            if not o.is_active:
                continue
            sy = RSYM[o.symbol]
            q1, e1 = _predict_fill(st[sy][0], st[sy][1], o.side, units(abs(o.qty), QU), int(o.price), bool(o.reduce_only))
            if abs(q1) > maxpos or 60 % e1.denominator != 0:
                return False
            st[sy] = (q1, e1)
            if q1 == 0 and hdr["CancelOnClose"]:
                pass                     # resting orders of sy get cancelled; later ids of sy become no-ops (still fine)
        return True

    for step in range(nops):
        sy = rng.choice(s.syms)
        pos_q = state()[sy][0]
        x = rng.random()
        op = None
        act = active()
        finals = [i + 1 for i, o in enumerate(s.orders) if not o.is_active]
        if dups and finals and x < dups:
            c = rng.random()
            if c < 0.4:
                op = {"op": "exec", "id": rng.choice(finals)}
            elif c < 0.75:
                op = {"op": "cancel", "id": rng.choice(finals)}
            elif c < 0.9:
                op = {"op": "cancelall", "sym": sy}
            else:
                op = {"op": "prune", "sym": sy}
        elif x < 0.42 or not act:
            side = rng.choice(["buy", "sell"])
            typ = rng.choice(["MKT", "LMT", "STP"])
            cur = int(s.sess.pos[SYM[sy]].current_price)
            price = cur if typ == "MKT" else rng.choice(prices)
            if kind == "futures":
                q = rng.choice(qtys)
                ro = pos_q != 0 and ((pos_q > 0) == (side == "sell")) and rng.random() < 0.5
                mine = [o for o in s.orders if o.is_active and o.symbol == SYM[sy]]
                wal, mar = s.exchange.assets[s.exchange.settlement_currency], s.exchange.available_margin
                y = rng.random()
                if mine and y < 0.15:
                    # look-alike: same (side, qty, price) as a resting order, the other reduce-only flag where that is
                    # legal - the reserved tables hold anonymous [qty, price] rows
                    o = rng.choice(mine)
                    side, q = o.side, units(abs(o.qty), QU)
                    typ = rng.choice(["LMT", "STP"]) if o.type == "MARKET" else TYP_R[o.type]
                    price = int(o.price)
                    ro = (not o.reduce_only) and pos_q != 0 and ((pos_q > 0) == (side == "sell"))
                elif mar > wal and y < 0.45:
                    # unrealised profit has pushed the available margin above the wallet balance: sizes between the
                    # two must be accepted, sizes just above the margin rejected
                    lev = hdr.get("Lev", 1)
                    inside = [(a, b) for a in qtys for b in prices if wal * QU < a * b / lev <= mar * QU]
                    above = [(a, b) for a in qtys for b in prices if mar * QU < a * b / lev <= mar * QU * 1.5 + 1]
                    pick = above if (above and rng.random() < 0.08) else inside
                    if pick:
                        q, price = rng.choice(pick)
                        typ = rng.choice(["LMT", "STP"])
                        ro = False
                if not ro:
                    resting = sum(units(abs(o.qty), QU) for o in s.orders if o.is_active and o.symbol == SYM[sy]
                                  and not o.reduce_only and o.side == side)
                    signed = pos_q if side == "buy" else -pos_q
                    if max(signed, 0) + resting + q > maxpos and rng.random() > p_reject_probe:
                        continue
                if len(active(sy)) >= 7:
                    continue
            else:
                base = units(s.exchange.assets[SYM[sy].split("-")[0]], K)
                if side == "buy":
                    q = rng.choice(qtys) * K
                    ro = False
                    free = units(s.exchange.assets[s.exchange.settlement_currency], 1)
                    if q // K * price > free and rng.random() > p_reject_probe:
                        continue
                else:
                    cands = [k * K for k in qtys]
                    if base > 0:
                        cands += [base, base, max(1, base // 2)]
                    q = rng.choice(cands)
                    resting = sum(units(abs(o.qty), K) for o in s.orders if o.is_active and o.symbol == SYM[sy]
                                  and o.side == "sell" and o.type == ("STOP" if typ == "STP" else "LIMIT"))
                    if q + resting > base and rng.random() > p_reject_probe:
                        continue         # would be rejected: keep these rare
                    ro = base > 0 and rng.random() < 0.4
                if len(active(sy)) >= 7:
                    continue
            op = {"op": "submit", "sym": sy, "side": side, "typ": typ, "q": q, "p": price, "ro": ro}
        elif x < 0.67:
            i = rng.choice(act)
            if kind == "futures" and not fut_fill_ok([i]):
                continue
            op = {"op": "exec", "id": i}
        elif x < 0.77:
            op = {"op": "cancel", "id": rng.choice(act)}
        elif x < 0.87:
            pend = [s.ordinal.get(id(o), 0) for o in s.store.orders.to_execute]
            if not pend:
                continue
            if kind == "futures" and not fut_fill_ok(pend):
                continue
            op = {"op": "flush"}
        elif x < 0.97:
            op = {"op": "price", "sym": sy, "p": rng.choice(prices)}
        else:
            op = {"op": "cancelall", "sym": sy} if dups else {"op": "price", "sym": sy, "p": rng.choice(prices)}
        ev = s.apply(op)
        evs.append(ev)
        if (ev["k"] == "submit" and not ev["acc"]) or ev["exc"] != "none":
            break
    return {"hdr": hdr, "init": init, "ev": evs, "skipped": 0}


def random_chunk(arg):
    kind, items = arg
    out = []
    for tid, hdr, seed, nops, dups in items:
        tr = random_history(kind, hdr, seed, nops, dups)
        tr["id"] = tid
        out.append(tr)
    return out


def random_histories(kind, specs, procs=12):
    """specs: [(id, hdr, seed, nops, dups)] -> traces (forked children)"""
    from ..session import run_isolated
    if not specs:
        return []
    n = max(1, min(procs, len(specs) // 20 + 1))
    chunks = [specs[i::n] for i in range(n)]
    res = run_isolated(random_chunk, [(kind, ch) for ch in chunks], procs=n)
    out = []
    for r in res:
        if isinstance(r, tuple) and r and r[0] == "EXC":
            raise Machinery("random history child failed: %s" % r[1])
        out += r
    out.sort(key=lambda t: t["id"])
    return out


def word(tr):
    """op-kind word of a trace (non-triviality key)"""
    return "".join({"submit": "S", "cancel": "C", "exec": "X", "flush": "F", "cancelall": "A", "prune": "P",
                    "price": "p", "obs": "o"}[e["k"]] + ("!" if e["k"] == "submit" and not e.get("acc", True) else "")
                   for e in tr["ev"])


# ------------------------------------------------------------------------------------------------
# reporting helpers shared by the checks c03 / c04 / c05
# ------------------------------------------------------------------------------------------------
def ops_of(tr, upto=None):
    """driver operations of a recorded trace (for replay files)"""
    evs = tr["ev"] if upto is None else tr["ev"][:upto]
    return [dict({k: v for k, v in e.items() if k not in ("k", "exc", "acc", "post", "pre", "sp", "rejexc")}, op=e["k"]) for e in evs]


def fill_kinds(kind, tr):
    """coverage counting only: effect class of every fill in the judged part of a trace (from the logged states)"""
    res = []
    prev = tr["init"]
    for e in tr["ev"]:
        post = e.get("post")
        if post is None:
            break
        if e["k"] in ("exec", "flush") and e["exc"] == "none":
            key = "pq" if kind == "futures" else "pos"
            for s in prev[key]:
                a, b = prev[key][s], post[key][s]
                if a == b:
                    continue
                res.append("open" if a == 0 else "close" if b == 0 else "flip" if a * b < 0 else
                           "increase" if abs(b) > abs(a) else "reduce")
        if e["k"] in ("exec", "cancel") and e["exc"] == "none" and prev["ord"][e["id"] - 1]["st"] != "A":
            res.append("duplicate-" + e["k"])
        if e["k"] == "submit" and not e.get("acc", True):
            res.append("rejection")
        prev = post
    return res


def nontrivial(kind, tr, prefix_ops=None):
    """DESIGN appendix C: >= 1 fill and >= 1 of {cancel, reduce, flip, rejection, duplicate call}"""
    w = "".join({"submit": "S", "cancel": "C", "exec": "X", "flush": "F", "cancelall": "A", "prune": "P", "price": "p", "obs": "o"}[o["op"]]
                for o in (prefix_ops or [])) + word(tr)
    fk = fill_kinds(kind, tr)
    return (("X" in w or "F" in w) and ("C" in w or "A" in w or "!" in w or any(
        k in ("reduce", "flip", "close", "duplicate-exec", "duplicate-cancel") for k in fk)))


def report(ctx, pid, kind, traces, verdicts, proj, src, meta=None, report_known=True, hist_of=None):
    """turn TLC's verdicts into ctx.violation entries; returns (rejected, named) counts"""
    bad = named = 0
    for t in traces:
        v = verdicts[t["id"]]
        l, verdict = v[0], v[1]
        known = list(v[2]) if len(v) > 2 else []
        full_ops = (hist_of(t) if hist_of else None) or ops_of(t, l if t["hdr"].get("judgeinit") else None)
        payload = {"kind": kind, "proj": proj, "hdr": t["hdr"], "ops": full_ops, "src": src}
        if t.get("args"):
            payload = {"kind": kind, "proj": proj, "vivo": t["args"], "src": "in-vivo backtest", "event": l,
                       "last_events": ops_of(t, l)[-8:]}
        if verdict != "ok":
            bad += 1
            ctx.violation("%s %s %s" % (pid, kind, verdict),
                          "%s trace %d (%s, %s) rejected at judged event %d: %s; ops=%s" % (
                              kind, t["id"], src, {k: v for k, v in t["hdr"].items() if k != "cur0"}, l, verdict,
                              full_ops[-6:]), payload)
        if report_known:
            for k in known:
                named += 1
                ctx.violation("%s %s %s" % (pid, kind, k),
                              "%s trace %d (%s): the code deviates from the reference account exactly as the named "
                              "quirk of Spot.tla: %s; ops=%s" % (kind, t["id"], src, k, full_ops[-6:]), payload)
    return bad, named
