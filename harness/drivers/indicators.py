"""Driver shared by C13 / C14 / C15: introspection of jesse.indicators, candle series on an integer lattice,
parameter variants, evaluation in forked workers (numba JIT dominates: one worker compiles an indicator once),
integer logging of float series for TLC.  Nothing here judges: it produces *inputs* and *recorded outputs*."""
import inspect, math, os, random, multiprocessing, traceback, zlib
# numba kernels do not check array bounds: with an input shorter than a period parameter several of jesse's kernels
# write outside their arrays (heap corruption, "free(): invalid pointer").  Bounds checking turns that undefined
# behaviour into an IndexError, which the drivers record as "raised on this input" (must be set before numba is imported).
os.environ.setdefault("NUMBA_BOUNDSCHECK", "1")
import numpy as np

T0 = 1609459200000
MIN = 60_000

# logging sentinels (TLC integers): distinct from every logged finite value (|finite| <= CLAMP)
NAN = -2147483647
PINF = 2147483646
NINF = -2147483646
CLAMP = 1_000_000_000
WARMUP = 240          # the warm-up window of property C14 (jesse's default env.data.warmup_candles_num)

SOURCES = ["close", "high", "low", "open", "volume", "hl2", "hlc3", "ohlc4"]
SECOND = ("benchmark_candles", "candles_compare")
STR_CHOICES = {"direction": ["long", "short"], "mode_switch": ["Hma", "Ehma", "Thma"], "anchor": ["D", "h"]}
MATYPE_SWEEP = [0, 1, 2, 3, 4, 5, 6, 12, 23, 10, 14, 32, 24, 29]  # window, recursive (ema, dema, tema, kama, wilders,
                                                             # smma, mwdx), hma, a 2-pole filter, and the volume-weighted vwma / vwap (candles input, vwap anchored at midnight)
ENUM_INT = {"matype": list(range(0, 40)), "fast_matype": MATYPE_SWEEP, "slow_matype": MATYPE_SWEEP,
            "slowk_matype": MATYPE_SWEEP, "slowd_matype": MATYPE_SWEEP, "fastd_matype": MATYPE_SWEEP,
            "signal_matype": MATYPE_SWEEP, "ma_type": MATYPE_SWEEP, "devtype": [0, 1, 2], "mode": [0, 1, 2, 3, 4],
            "method": [0, 1, 2], "poles": [1, 2, 3, 4], "power": [1, 2, 3]}


# ------------------------------------------------------------------------------------------------ catalog
def catalog():
    """every public function of jesse.indicators with its parameters (introspected, nothing hard-coded)"""
    import jesse.indicators as ta
    out = []
    for n in sorted(dir(ta)):
        f = getattr(ta, n)
        if n.startswith("_") or not inspect.isfunction(f):
            continue
        sig = inspect.signature(f)
        ps = list(sig.parameters.values())
        if not ps or ps[0].name != "candles":
            continue
        params = {p.name: p.default for p in ps[1:] if p.name not in SECOND and p.name != "sequential"}
        out.append({"name": n, "sequential": "sequential" in sig.parameters,
                    "second": next((p.name for p in ps if p.name in SECOND), None), "params": params})
    return out


def variants(entry, rng, count, sweep=False):
    """parameter sets: {} (defaults) first, then perturbed ones.  Generated from the signature's default types."""
    ps = entry["params"]
    res = [{}]
    seen = {()}
    tries = 0
    while len(res) < count and tries < 50 * count and ps:
        tries += 1
        kw = {}
        for name, d in ps.items():
            if name == "source_type":
                kw[name] = rng.choice(SOURCES)
            elif name in STR_CHOICES:
                kw[name] = rng.choice(STR_CHOICES[name])
            elif name in ENUM_INT:
                kw[name] = rng.choice(ENUM_INT[name])
            elif isinstance(d, bool):
                kw[name] = rng.choice([True, False])
            elif isinstance(d, int):
                if d < 0:
                    kw[name] = d - rng.randint(0, 10)
                else:
                    lo = 2
                    hi = max(4, (d * 2 if sweep else d + d // 2 + 3))
                    kw[name] = rng.randint(lo, min(hi, 60) if not sweep else min(hi, 90))
            elif isinstance(d, float):
                kw[name] = round(d * rng.choice([0.5, 0.75, 1.25, 1.5, 2.0]), 6) if d else rng.choice([0.0, 0.5, 1.0])
            # other defaults (None, objects) stay default
        key = tuple(sorted(kw.items()))
        if key in seen or min_len(entry, kw) >= 200:
            continue
        seen.add(key)
        res.append(kw)
    return res


def period_like(entry):
    """names of the integer parameters that look like window lengths (positive int default, not an enumeration)"""
    return [n for n, d in entry["params"].items()
            if n not in ENUM_INT and isinstance(d, int) and not isinstance(d, bool) and 0 < d <= 200]


def boundary_variants(entry, values=(1, 2, 3)):
    """the smallest window lengths: every period-like parameter set to 1, 2, 3 (an indicator that rejects a value raises
    and is skipped for it); indicators with several periods additionally get each period alone at the boundary"""
    names = period_like(entry)
    out = []
    for v in values:
        if names:
            out.append({n: v for n in names})
    if len(names) > 1:
        for n in names:
            out.append({n: 1})
            out.append({n: 2})
    return out


def matype_like(entry):
    return [n for n in entry["params"] if "matype" in n or n == "ma_type"]


def matype_variants(entry):
    """sweep of every moving-average selector parameter over MATYPE_SWEEP (all selectors together; with several selectors
    also each alone on a recursive type); values an indicator rejects raise and are skipped"""
    names = matype_like(entry)
    out = []
    for m in MATYPE_SWEEP:
        if names:
            out.append({n: m for n in names})
    if len(names) > 1:
        for n in names:
            out.append({n: 1})
            out.append({n: 23})
    return out


def slow_variant(entry, total=150):
    """long windows (their sum about `total`): history reaches back far beyond a short window, so a result computed on the
    wrong slice of the input is visibly different"""
    names = period_like(entry)
    if not names:
        return None
    base = sum(entry["params"][n] for n in names)
    f = max(1.0, total / float(base))
    kw = {n: max(2, int(entry["params"][n] * f)) for n in names}
    return kw if min_len(entry, kw) < 200 else None


def min_len(entry, kw):
    """shortest input the drivers feed: the sum of the period-like integer parameters + 2 (capped at 200).  Below that
    several kernels leave defined behaviour (as_strided with a negative shape, writes past the end); all they could
    return there is warm-up padding."""
    tot = 0
    for name, d in entry["params"].items():
        v = kw.get(name, d)
        if name in ENUM_INT or isinstance(v, bool) or not isinstance(v, int):
            continue
        if 0 < v <= 200:
            tot += v
    return min(tot + 2, 200)


# ------------------------------------------------------------------------------------------------ series
def plateau_layout(n, seed):
    """flat stretches [(start, end)) (0-based, end exclusive) of a 'plateau' series: 15-40 candles with
    open == high == low == close at one price, embedded between moving parts"""
    rng = random.Random("plateau-layout-%d-%d" % (n, seed))
    out, i = [], rng.randint(35, 55)
    while i + 45 < n:
        ln = rng.randint(15, 40)
        out.append((i, min(i + ln, n - 5)))
        i = out[-1][1] + rng.randint(30, 60)
    return out


def plateau_cuts(n, seed, full=True):
    """prefix lengths placed at the structural points of a plateau series: inside, exactly at the end of, and just after
    every flat stretch (a prefix of length L contains candles 0..L-1), and the whole series"""
    cuts = set()
    for a, b in plateau_layout(n, seed):
        cuts.update([a + 2, (a + b) // 2, b - 1, b, b + 1, b + 3] if full else [(a + b) // 2, b, b + 1])
    cuts.add(n)
    return sorted(k for k in cuts if 1 <= k <= n)


def zerovol_layout(n, seed):
    """stretches [(start, end)) of a 'zerovol' series in which nothing is traded (volume exactly 0) while the price keeps
    moving: 15-60 candles each, at least one of 25+, and (odd seeds) one at the very start of the series"""
    rng = random.Random("zerovol-layout-%d-%d" % (n, seed))
    out = []
    i = 0
    if seed % 2 == 1:
        out.append((0, rng.choice([1, 8, 22])))
        i = out[-1][1]
    i += rng.randint(25, 45)
    first = True
    while i + 70 < n:
        ln = rng.randint(25, 60) if first else rng.randint(15, 60)
        first = False
        out.append((i, min(i + ln, n - 12)))
        i = out[-1][1] + rng.randint(30, 55)
    return out


def zerovol_cuts(n, seed, full=True):
    cuts = set()
    for a, b in zerovol_layout(n, seed):
        cuts.update([(a + b) // 2, b - 1, b, b + 1, b + 3, b + 5, b + 12] if full else [(a + b) // 2, b, b + 1, b + 5])
    cuts.add(n)
    return sorted(k for k in cuts if 1 <= k <= n)


def make_series(kind, n, seed, base=100, vol=50):
    """integer-lattice candles [ts, open, close, high, low, volume]; exact in float64"""
    rng = random.Random("%s-%d-%d" % (kind, n, seed))
    c = np.zeros((n, 6))
    p = base
    flat_at, novol_at = set(), set()
    if kind == "plateau":
        for a, b in plateau_layout(n, seed):
            flat_at.update(range(a, b))
    if kind == "zerovol":
        for a, b in zerovol_layout(n, seed):
            novol_at.update(range(a, b))
    for i in range(n):
        o = p
        if kind == "flat" or i in flat_at:
            cl = h = l = o
            v = vol
        else:
            step = 2
            drift = 0
            if kind == "trend":
                drift = 1 if (i // 70) % 2 == 0 else -1
            if kind == "alternating":
                cl = o + (3 if i % 2 == 0 else -3)
            elif kind == "monotone":
                cl = o + 1 + (i % 3 == 0)
            else:
                if rng.random() < 0.1:
                    o = max(20, p + rng.randint(-step, step))
                cl = max(20, o + rng.randint(-step, step) + drift) if rng.random() > 0.12 else o
            wick = 2
            h = max(o, cl) + rng.randint(0, wick)
            l = max(1, min(o, cl) - rng.randint(0, wick))
            if kind == "spike" and rng.random() < 0.03:
                if rng.random() < 0.5:
                    h = h + rng.randint(20, 60)
                else:
                    l = max(1, l - rng.randint(20, 60))
                if rng.random() < 0.5:
                    cl = rng.randint(l, h)
            v = rng.randint(1, vol) * (10 if kind == "spike" and rng.random() < 0.05 else 1)
        if i in novol_at:
            v = 0
        c[i] = (T0 + i * MIN, o, cl, h, l, v)
        p = cl
    return c


def real_series(n, seed, start=100.0, vol=0.004):
    """real-valued (non-lattice) random walk"""
    rng = random.Random("real-%d-%d" % (n, seed))
    c = np.zeros((n, 6))
    p = start
    for i in range(n):
        o = p * (1 + rng.gauss(0, vol / 4))
        cl = o * (1 + rng.gauss(0, vol))
        h = max(o, cl) * (1 + abs(rng.gauss(0, vol / 2)))
        l = min(o, cl) * (1 - abs(rng.gauss(0, vol / 2)))
        c[i] = (T0 + i * MIN, o, cl, h, l, rng.uniform(1, 100))
        p = cl
    return c


def regime_boundary(n, seed):
    """row at which a 'regime' series switches between its quiet and its volatile part; the second candle array of a
    two-array indicator (seed + 1000) switches at the same row"""
    return n // 2 - 20 + 13 * (seed % 1000 % 4)


def regime_series(n, seed, reverse=False):
    """real-valued series with a regime change: a very quiet stretch (moves of ~1e-5 around 100, not constant) and a
    volatile one (moves of several units), magnitude ratio ~1e5-1e6; quiet first unless `reverse`"""
    rng = random.Random("regime-%d-%d-%s" % (n, seed, reverse))
    b = regime_boundary(n, seed)
    c = np.zeros((n, 6))
    p = 100.0
    for i in range(n):
        quiet = (i < b) != reverse
        amp = 1e-5 if quiet else rng.choice([1.0, 2.0, 3.0])
        o = p
        cl = max(5.0, o + rng.gauss(0, 1) * amp)
        h = max(o, cl) + abs(rng.gauss(0, 0.5)) * amp
        l = min(o, cl) - abs(rng.gauss(0, 0.5)) * amp
        c[i] = (T0 + i * MIN, o, cl, h, l, rng.uniform(1, 100) * (1.0 if quiet else 20.0))
        p = cl
    return c


def regime_cuts(n, seed, full=True):
    b = regime_boundary(n, seed)
    cuts = [b - 40, b - 1, b, b + 1, b + 3, b + 10, b + 30, n] if full else [b - 40, b, b + 1, b + 10, n]
    return sorted({k for k in cuts if 1 <= k <= n})


def build_series(spec):
    """spec = (kind, n, seed[, scale[, "jitter"]]).  The jittered twin of a series multiplies every price and volume by
    1 + 1e-9 * u (u uniform in [-1, 1], reproducible): same shape (far below the moves of even a very quiet market, far
    above the 1e-16 of float rounding), but no exact ties between candles any more."""
    kind, n, seed = spec[0], spec[1], spec[2]
    scale = spec[3] if len(spec) > 3 else 1.0
    if kind == "real":
        c = real_series(n, seed)
    elif kind in ("regime", "regime_r"):
        c = regime_series(n, seed, reverse=(kind == "regime_r"))
    else:
        c = make_series(kind, n, seed)
    if scale != 1.0:
        c = c.copy()
        c[:, 1:6] *= scale          # powers of two keep the lattice exact
    if len(spec) > 4 and spec[4] == "jitter":
        rng = np.random.default_rng(zlib.crc32(("%s-%d-%d" % (kind, n, seed)).encode()))
        c = c.copy()
        c[:, 1:6] *= 1.0 + 1e-9 * rng.uniform(-1.0, 1.0, size=(n, 5))
        c[:, 3] = np.maximum(c[:, 3], np.maximum(c[:, 1], c[:, 2]))
        c[:, 4] = np.minimum(c[:, 4], np.minimum(c[:, 1], c[:, 2]))
    return c


# ------------------------------------------------------------------------------------------------ calling
def call(entry, candles, second, kw, sequential=None):
    import jesse.indicators as ta
    f = getattr(ta, entry["name"])
    args = [candles]
    if entry["second"]:
        args.append(second)
    k = dict(kw)
    if sequential is not None:
        k["sequential"] = sequential
    return f(*args, **k)


def fields_of(res):
    """result -> [(field name, value)]; a bare result is the single field 'value'"""
    if hasattr(res, "_fields"):
        return [(k, getattr(res, k)) for k in res._fields]
    return [("value", res)]


def as_list(x):
    """a sequential field as a list of python scalars, or None when it is not a one-dimensional series"""
    if isinstance(x, np.ndarray):
        if x.ndim != 1:
            return None
        return x.tolist()
    if isinstance(x, (list, tuple)):
        return [v.item() if isinstance(v, np.generic) else v for v in x]
    return None


def is_discrete(x):
    """does a sequential field take discrete values (strings, flags, integer codes)?  Decided from its type only."""
    if isinstance(x, np.ndarray):
        if x.dtype.kind in "biuSU":
            return True
        if x.dtype.kind == "O":
            return any(isinstance(v, str) for v in x.tolist())
        return False
    if isinstance(x, (list, tuple)):
        return len(x) > 0 and all(isinstance(v, (bool, int, str, np.integer, np.bool_)) for v in x)
    return False


def is_scalar(x):
    return x is None or isinstance(x, (bool, int, float, str, np.generic)) or (isinstance(x, np.ndarray) and x.ndim == 0)


def to_scalar(x):
    if isinstance(x, np.generic):
        return x.item()
    if isinstance(x, np.ndarray) and x.ndim == 0:
        return x.item()
    return x


def kind_of(values):
    return "str" if any(isinstance(v, str) for v in values) else "num"


def scale_of(values, pscale):
    m = 0.0
    for v in values:
        if isinstance(v, str) or v is None:
            continue
        try:
            a = abs(float(v))
        except (TypeError, ValueError):
            continue
        if math.isfinite(a) and a > m:
            m = a
    return max(m, 1e-6 * pscale, 1e-300)


def enc(v, unit):
    """one logged token: integer count of logging units, or a sentinel"""
    if v is None:
        return NAN
    if isinstance(v, str):
        raise TypeError("string in a numeric series")
    v = float(v)
    if math.isnan(v):
        return NAN
    if math.isinf(v):
        return PINF if v > 0 else NINF
    q = v / unit
    if q > CLAMP:
        return CLAMP
    if q < -CLAMP:
        return -CLAMP
    return int(round(q))


def enc_series(values, kind, unit):
    if kind == "str":
        return ["none" if v is None else ("nan" if isinstance(v, float) and math.isnan(v) else str(v)) for v in values]
    return [enc(v, unit) for v in values]


def exc_name(ex):
    return type(ex).__name__


# ------------------------------------------------------------------------------------------------ parallel map
def _child(fn, item, conn):
    try:
        res = fn(item)
    except BaseException as ex:
        res = ("EXC", "%s: %s\n%s" % (type(ex).__name__, ex, traceback.format_exc()[-2000:]))
    try:
        conn.send(res)
    finally:
        conn.close()
        os._exit(0)


def pmap(fn, items, procs=16, timeout=600):
    """fn(item) for every item, each in its own forked child (an indicator's kernels are compiled in the child that
    needs them; a child that dies - numba kernels are not memory safe - or hangs costs only its own item).
    Returns results in order; ('CRASH', text) / ('EXC', text) for a child without a result."""
    if not items:
        return []
    import time
    import jesse.indicators  # noqa: imported before the fork so that children share it
    ctx = multiprocessing.get_context("fork")
    results = [None] * len(items)
    running = {}
    nxt = 0
    while nxt < len(items) or running:
        while nxt < len(items) and len(running) < procs:
            pr, pw = ctx.Pipe(duplex=False)
            p = ctx.Process(target=_child, args=(fn, items[nxt], pw))
            p.start()
            pw.close()
            running[nxt] = (p, pr, time.time())
            nxt += 1
        progressed = False
        for i, (p, pr, t0) in list(running.items()):
            if pr.poll(0):
                try:
                    results[i] = pr.recv()
                except EOFError:
                    results[i] = ("CRASH", "child exited without a result (exit code %s)" % p.exitcode)
                p.join()
                pr.close()
                del running[i]
                progressed = True
            elif not p.is_alive():
                # died; drain a result that may have been sent just before
                if pr.poll(0.05):
                    try:
                        results[i] = pr.recv()
                    except EOFError:
                        results[i] = ("CRASH", "child died (exit code %s)" % p.exitcode)
                else:
                    results[i] = ("CRASH", "child died (exit code %s)" % p.exitcode)
                p.join()
                pr.close()
                del running[i]
                progressed = True
            elif time.time() - t0 > timeout:
                p.kill()
                p.join()
                pr.close()
                results[i] = ("CRASH", "child killed after %ss" % timeout)
                del running[i]
                progressed = True
        if not progressed:
            time.sleep(0.01)
    return results


def pscale_of(candles):
    return float(np.max(np.abs(candles[:, 2]))) if len(candles) else 1.0
