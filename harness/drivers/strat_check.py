"""Shared machinery of the C10 and C06 checks (strategy layer):
  M  StrategyLayer.tla instances checked by TLC (clean tree model, repaired model, expected counter-examples)
  R  model behaviours (counter-examples, TLC-simulated behaviours) replayed on the real Strategy (strat_replay)
  T  in-vivo backtests with policy strategies (strat_runs)
and TLC monitors (TraceRouting / TraceHooksTrades) judging every recorded run.  Python drives, encodes, parses."""
import json, re, os, collections
from .. import tlc, session as S
from ..core import Machinery
from . import strat_runs as D, strat_replay as R

BASE = 20000
INV_C10 = ["RoutingOK", "ExitsReduceOnly", "ExitCorrespondence", "NoExitWhenFlat", "EntryCancelRule"]
INV_C06 = ["HooksFaithful", "OneTradePerCycle", "TradeFaithful", "WalletIdentity", "FlatAtEnd", "NoLivelock"]


def model_cfg(depth=10, maxord=6, multi=False, oversize=False, wrong=False, edit=1, rrepl=True, rclamp=True,
              invariants=(), emit=False):
    b = lambda x: "TRUE" if x else "FALSE"
    return ("SPECIFICATION Spec\nVIEW View\nALIAS Alias\nCONSTRAINT Bound\nCHECK_DEADLOCK FALSE\n"
            "CONSTANTS B = %d Offs = {0, 4} MaxDepth = %d MaxOrd = %d MultiPoint = %s Oversize = %s WrongSide = %s "
            "EditLevel = %d RepairedReplacement = %s RepairedClamp = %s\n"
            % (BASE, depth, maxord, b(multi), b(oversize), b(wrong), edit, b(rrepl), b(rclamp))
            + "".join("INVARIANT %s\n" % i for i in invariants) + ("INVARIANT EmitHist\n" if emit else ""))


WIT_C10 = ["CancelYes", "CancelNo", "BothExitsAtAfter", "ExitReplacedByEdit", "EntryStop", "EntryLimit", "EntryMarket",
           "ExitStop", "ExitLimit", "ExitMarket", "FlatAfterCloseWithCancel"]
WIT_C06 = ["ShortCycle", "ForcedClose", "FlatAfterCloseWithCancel", "LongCycle3", "Reduced"]


def witnesses(ctx, names, **consts):
    """non-vacuity: every W_<name> must be reachable in the instance the invariants were checked in - TLC must
    refute NotW_<name>.  Returns {name: length of TLC's shortest witness}."""
    rs = tlc.run_parallel([dict(module="StrategyLayer", cfg_text=model_cfg(invariants=["NotW_" + n], **consts), workers=1,
                                timeout=600) for n in names], max_procs=8)
    res = {}
    for n, r in zip(names, rs):
        if not r.violation:
            raise Machinery("vacuity: the situation W_%s is unreachable in the checked instance (%d states)" % (n, r.distinct))
        res[n] = len(hist_of_violation(r))
    return res


def hist_of_violation(r):
    """the history variable of the last state of TLC's error trace (printed through ALIAS as a JSON string)"""
    m = re.findall(r'^/\\ hist = "(.*)"$', r.raw, re.M)
    if not m:
        raise Machinery("no history in TLC's error trace:\n" + r.raw[-1500:])
    return json.loads(json.loads('"' + m[-1] + '"'))


def simulated_histories(ctx, num, depth, seed, **consts):
    r = tlc.run("StrategyLayer", cfg_text=model_cfg(depth=depth, emit=True, **consts), workers=1,
                simulate="num=%d" % num, depth=depth + 12, seed=seed, timeout=900)
    hs = sorted({x[1] for x in tlc.tagged(r, "HIST")}, key=len, reverse=True)
    keep = []
    for h in hs:                      # maximal histories only (every prefix is printed too)
        stem = h[:-1]
        if not any(k.startswith(stem) for k in keep):
            keep.append(h)
    return [json.loads(h) for h in keep], r


def clause_family(c):
    head = c.split(":")[0]
    if head.startswith("hook"):
        return "hooks"
    if head.startswith("trade"):
        return "trade-log"
    if head in ("sum-of-trade-pnl-vs-wallet", "net-profit-vs-finishing-balance"):
        return "net-profit"
    if head.startswith("position"):
        return "position"
    return "exits"


TAGS = [":oversize-ro-spot-in-run", ":oversize-ro-spot", ":after-flip-by-market-replacement", ":flip-by-market-replacement-in-run", ":flip-by-market-replacement",
        ":oversize-ro-in-run", ":oversize-ro", ":after-flip", ":flip-in-run", ":flip"]


def sig_of(clause):
    """stable signature of a monitor clause: clauses that the monitor attributed to a cause (flip by the market
    replacement, oversize reduce-only close) are grouped per family and cause, all others are their own class"""
    if clause.startswith("machinery:") or clause in ("session-aborted-by:EncodeError", "session-aborted-by:S_Overflow"):
        raise Machinery("trace out of the recorder's protocol: " + clause)
    if clause == "exit-not-reduce-only:market-replacement-on-open":
        return clause
    for t in TAGS:
        if clause.endswith(t):
            cause = t.replace(":after-", ":").replace("-in-run", "")
            return clause_family(clause) + cause
    return clause


def judge(ctx, module, traces, label, by_id, parts=8, replay_kind=None):
    """TLC validates the traces; every clause becomes a ctx.violation with its signature.  Returns (#traces with
    clauses, stats rows)."""
    if not traces:
        return 0, []
    verdicts, results = tlc.validate_traces(module, module + ".cfg", traces, ctx.sub("tv-%s-%s" % (module, label)), parts=parts)
    bad = 0
    for i, (l, vs) in sorted(verdicts.items()):
        if vs:
            bad += 1
        for ll, c in vs:
            t = by_id[i]
            ctx.violation(sig_of(c), "%s trace %d (%s): clause %s at event %d" % (label, i, t.get("desc", ""), c, ll),
                          {"kind": t["kind"], "item": t["item"], "clause": c, "event": ll, "module": module})
    stats = [x for r in results for x in tlc.tagged(r, "STATS")]
    ctx.coverage["trace_events_checked_by_tlc"] = ctx.coverage.get("trace_events_checked_by_tlc", 0) + sum(r.generated for r in results)
    return bad, stats


def hook_words(trace):
    """hook word of every complete cycle (coverage bookkeeping only)"""
    words, cur = [], {}
    for e in trace["ev"]:
        if e["k"] == "hook":
            w = cur.setdefault(e["s"], [])
            w.append(e["n"])
            if e["n"] == "close":
                words.append(tuple(w))
                cur[e["s"]] = []
    return words


def edit_words(trace):
    """per cycle: the hooks in which a declaration differed from the previous one (coverage bookkeeping only)"""
    words, cur, last = [], {}, {}
    for e in trace["ev"]:
        if e["k"] == "decl":
            d = (tuple(map(tuple, e["buy"])), tuple(map(tuple, e["sell"])), tuple(map(tuple, e["sl"])), tuple(map(tuple, e["tp"])))
            if last.get(e["s"]) != d:
                cur.setdefault(e["s"], []).append(e["h"])
            last[e["s"]] = d
            if e["h"] == "on_close_position":
                words.append(tuple(cur.get(e["s"], [])))
                cur[e["s"]] = []
    return words


def _run_any(item):
    if item.get('kind') == 'routes':          # multi-route session (2-3 routes, on_route_* hooks that may edit exits)
        from . import route_runs
        return route_runs.run_item(item)
    return D.run_item(item)


def run_vivo(ctx, items):
    D.warm_parent()
    res = S.run_isolated(_run_any, items, procs=ctx.pick(10, 14), chunk=4)       # every session starts with reset_process_state()
    traces, by_id = [], {}
    for it, r in zip(items, res):
        if isinstance(r, tuple):
            raise Machinery("in-vivo run %r failed in the driver: %s" % (it.get("kind"), r[1][-1200:]))
        by_id[r["id"]] = {"kind": "vivo", "item": it, "desc": "%s pseed=%s cseed=%s exc=%s" % (
            it["kind"], it["policy"]["seed"], it["cseed"], r["hdr"]["exc"][:40])}
        traces.append(r)
    return traces, by_id


def run_replays(ctx, items, compare=True):
    D.warm_parent()
    res = S.run_isolated(R.replay_item, items, procs=ctx.pick(10, 14), chunk=12)
    traces, by_id = [], {}
    for it, r in zip(items, res):
        if isinstance(r, tuple):
            raise Machinery("replay failed in the driver: %s" % r[1][-1200:])
        if not compare:
            r["ev"] = [e for e in r["ev"] if e["k"] != "proj"]
        by_id[r["id"]] = {"kind": "replay", "item": it, "desc": "%s exc=%s" % (it.get("src"), r["hdr"]["exc"][:40])}
        traces.append(r)
    return traces, by_id


def vivo_items(ctx, count, kinds, n_minutes, id0=0):
    items = D.gen_items(ctx.seed, count, kinds, n_minutes)
    for it in items:
        it["id"] += id0
    from . import route_runs
    extra = route_runs.gen_items(ctx.seed + 3, max(4, count // 12), n_steps=40)       # multi-route sessions with reactions in on_route_* hooks
    for it in extra:
        it["id"] += id0 + len(items)
        it["policy"]["p_edit_route"] = 0.3
    return items + extra


def replay_payload(ctx, payload, module):
    """re-run one recorded violation: same item through the code, same monitor"""
    if payload["kind"] == "vivo":
        traces, by_id = run_vivo(ctx, [payload["item"]])
    else:
        traces, by_id = run_replays(ctx, [payload["item"]], compare=payload["item"].get("compare", True))
    verdicts, _ = tlc.validate_traces(module, module + ".cfg", traces, ctx.sub("tv-replay"), parts=1)
    for i, (l, vs) in verdicts.items():
        print("replay verdict:", l, vs)
        for ll, c in vs:
            ctx.violation(sig_of(c), "replay: clause %s at event %d" % (c, ll), payload)
