"""In-vivo driver shared by C10 (smart order routing / declarative exits) and C06 (hooks and trade log).

One *item* is a JSON-serialisable description of one real `research.backtest` call with a policy-driven strategy
(futures, 1-2 symbols, 1m): `run_item(item)` executes it in the current process (inside forked children via
`session.run_isolated`) and returns one recorded trace, already encoded for TLC (ints / strings / bools only).

The strategy's decisions are deterministic functions of (policy seed, symbol, hook, index, position side).  It uses
only the declarative API (self.buy / self.sell / self.stop_loss / self.take_profit / liquidate() /
should_cancel_entry()), in every hook the properties quantify over.

Recorded events (per run, field `s` = symbol index 1..n):
  step    i, q (position qty), rest (oids of active non-exit orders at before())
  decl    h (hook name), q, buy/sell/sl/tp rows [[qty,price],..], hb/hs/hl/ht (declared at all?)
  submit  o, side, type, q (|qty|), p, ro, cur (strategy.price at Order.__init__), pq (position qty), via (final tag)
  cancel  o
  fillb   o, side, q, p, ro, qb (position qty before), t (minute), type
  hook    n (open|inc|red|close), q (self.position.qty inside the user hook), o (oid passed to the hook)
  fille   o, qa (position qty after), act (active orders after the fill's hooks)
  after   i, q, sce (should_cancel_entry's answer for this index), act, sl/tp/hl/ht (declaration at after())
  end     trades [...], w0, w1, np, fb, has_metrics
  exc     cls
Nothing here judges anything: it drives, records and encodes."""
import random, hashlib
import numpy as np
from .. import session as S
from ..encode import exact_int

SYMS = ['BTC-USDT', 'ETH-USDT', 'SOL-USDT']
MAX_FILLS_PER_STEP = 60          # livelock guard (flip ping-pong in execute_pending_market_orders never ends)

DEFAULT = dict(
    seed=0, tick=1.0, base=100, qtys=(1, 2), entry_every=9, long_phase=1, short_phase=5, allow_short=True,
    entry_offsets=(0, 0, -1, -2, -3, 1, 2), max_entry_rows=2,
    sl_dist=(3, 7), tp_dist=(2, 6), max_exit_rows=2, exits_in='go',          # 'go' | 'on_open' | 'mixed' | 'none'
    p_cancel=0.4, p_edit=0.15, p_liq=0.03, p_edit_reduced=0.4, p_edit_increased=0.3, p_edit_entry=0.0,
    p_wrong_side=0.0, p_oversize=0.0, oversize_sl=False, edit_offsets=None,
    p_flip=0.0,               # NOT declarative: a non-reduce-only opposite market order larger than the position (broker.*_at_market)
    p_signed=0.5,             # on a short: exit rows declared with the signed quantity (self.position.qty < 0), as liquidate() does
    p_withdraw=0.05,          # withdraw one side of the exits by declaring []
    p_move_entry=0.0,         # re-declare the entry rows of an OPEN position with one price moved by 1-2 ticks (scale-in rows)
    p_inplace=0.12,           # in-place edits of an already formatted declaration (ndarray item / column assignment)
    resize_always=False,      # exits re-declared for the current position size after every increase / reduction
)


class VerifAbort(Exception):
    """raised by the livelock guard; ends the run, the trace so far is still validated"""


def _h(*parts):
    s = '|'.join(str(p) for p in parts).encode()
    return int.from_bytes(hashlib.blake2b(s, digest_size=8).digest(), 'big')


def rows_of(var):
    """declaration -> list of (|qty|, price) floats; None/[] -> []"""
    if var is None:
        return []
    if isinstance(var, np.ndarray):
        a = var
    else:
        if len(var) == 0:
            return []
        if type(var[0]) not in (list, tuple, np.ndarray):
            var = [var]
        a = np.array(var, dtype=float)
    return [(abs(float(r[0])), float(r[1])) for r in a]


def make_strategy(policy, log):
    from jesse.strategies import Strategy
    P = dict(DEFAULT)
    P.update(policy or {})
    tick = P['tick']

    class Pol(Strategy):
        POLICY = P

        def _r(self, hook):
            side = 0 if self.position.qty == 0 else (1 if self.position.qty > 0 else -1)
            return random.Random(_h(P['seed'], self.symbol, hook, self.index, side))

        def _decl(self, hook):
            log(self, 'decl', hook)

        # ---- entries
        def should_long(self):
            return self.index % P['entry_every'] == P['long_phase']

        def should_short(self):
            return P['allow_short'] and self.index % P['entry_every'] == P['short_phase']

        def _rows(self, r, sign):
            n = r.randint(1, P['max_entry_rows'])
            return [(r.choice(P['qtys']), self.price + sign * r.choice(P['entry_offsets']) * tick) for _ in range(n)]

        def _ladder(self, r, dist, direction, total, base):
            n = r.randint(1, P['max_exit_rows'])
            rows, left = [], total
            for j in range(n):
                q = left if j == n - 1 else min(left, r.choice(P['qtys']))
                if q <= 0:
                    break
                d = r.randint(*dist) + j
                if r.random() < P['p_wrong_side']:
                    d = -r.randint(0, 2)
                if r.random() < P['p_oversize']:
                    q = q + r.choice(P['qtys'])
                rows.append((q, base + direction * d * tick))
                left -= q
                if left <= 0:
                    break
            return rows

        @staticmethod
        def _style(r, rows):
            """the ways a declaration may be written: one tuple, list of tuples, list of lists, ndarray"""
            x = r.random()
            if len(rows) == 1 and x < 0.35:
                return rows[0]
            if x < 0.6:
                return list(rows)
            if x < 0.8:
                return [list(q) for q in rows]
            return np.array(rows, dtype=float)

        def _inplace(self, r):
            """edit a declaration that jesse has already formatted (ndarray) IN PLACE: item assignment or += on the price column"""
            names = [n for n in (('stop_loss', 'take_profit') + (('buy',) if self.position.qty > 0 else ('sell',) if self.position.qty < 0 else ()))
                     if isinstance(getattr(self, n), np.ndarray) and len(getattr(self, n)) > 0]
            if not names or self.position.qty == 0:
                return False
            name = r.choice(names)
            if name in ('buy', 'sell') and r.random() < 0.7:
                name = r.choice([n for n in names if n not in ('buy', 'sell')] or [name])
            arr = getattr(self, name)
            d = r.choice([-2, -1, 1, 2]) * tick
            if r.random() < 0.5:
                k = r.randrange(len(arr))
                if arr[k, 1] + d > 1:
                    arr[k, 1] = arr[k, 1] + d
            elif arr[:, 1].min() + d > 1:
                arr[:, 1] += d
            return True

        @staticmethod
        def _signed(r, sign, rows):
            """quantities of exit rows may carry the sign of the position (take_profit = self.position.qty, target)"""
            if sign < 0 and r.random() < P['p_signed']:
                return [(-q, p) for q, p in rows]
            return rows

        def _withdraw(self, r):
            """take one side of the exits back by declaring an empty list"""
            sides_ = [n for n in ('stop_loss', 'take_profit') if len(rows_of(getattr(self, n))) > 0]
            if not sides_ or self.position.qty == 0:
                return False
            setattr(self, r.choice(sides_), [])
            return True

        def _move_entry(self, r):
            """re-declare the (scale-in) entry rows of the open position with one price moved by a tick or two"""
            name = 'buy' if self.position.qty > 0 else 'sell'
            rows = rows_of(getattr(self, name))
            if not rows or self.position.qty == 0:
                return False
            k = r.randrange(len(rows))
            p_new = rows[k][1] + r.choice([-2, -1, 1, 2]) * tick
            if p_new <= tick:
                return False
            rows[k] = (rows[k][0], p_new)
            setattr(self, name, self._style(r, rows) if len(rows) > 1 else [rows[0]])
            return True

        def _set_exits(self, r, sign, total, which='both'):
            if which in ('sl', 'both'):
                sl = self._ladder(r, P['sl_dist'], -sign, total, self.price)
                if P['oversize_sl']:
                    sl = [(total, sl[0][1])]
                self.stop_loss = self._style(r, self._signed(r, sign, sl))
            if which in ('tp', 'both'):
                tp = self._ladder(r, P['tp_dist'], sign, total, self.price)
                self.take_profit = self._style(r, self._signed(r, sign, tp))

        def go_long(self):
            r = self._r('go_long')
            rows = self._rows(r, -1)
            self.buy = rows if len(rows) > 1 or r.random() < 0.5 else rows[0]
            if P['exits_in'] == 'go' or (P['exits_in'] == 'mixed' and r.random() < 0.5):
                self._set_exits(r, 1, sum(q for q, _ in rows))
            self._decl('go_long')

        def go_short(self):
            r = self._r('go_short')
            rows = self._rows(r, 1)
            self.sell = rows if len(rows) > 1 or r.random() < 0.5 else rows[0]
            if P['exits_in'] == 'go' or (P['exits_in'] == 'mixed' and r.random() < 0.5):
                self._set_exits(r, -1, sum(q for q, _ in rows))
            self._decl('go_short')

        def should_cancel_entry(self):
            return random.Random(_h(P['seed'], self.symbol, 'cancel', self.index)).random() < P['p_cancel']

        # ---- position management
        def on_open_position(self, order):
            r = self._r('on_open')
            log(self, 'hook', 'open', order)
            if P['exits_in'] != 'none' and ((self.stop_loss is None and self.take_profit is None) or P['exits_in'] == 'on_open'):
                sign = 1 if self.position.qty > 0 else -1
                self._set_exits(r, sign, abs(self.position.qty))
            self._decl('on_open_position')

        def _quiet(self):
            """the policy's own fuse: its edits are functions of (hook, index, side), so a hook that re-declares something which
            fills at once would repeat the same edit for ever inside one minute; after a few edits between two strategy steps the
            increase/reduce hooks stop editing (the chain of fills then ends - what is left would be a livelock of jesse itself)"""
            self._hook_edits = getattr(self, '_hook_edits', 0) + 1
            return self._hook_edits > 6

        def on_increased_position(self, order):
            r = self._r('on_inc')
            log(self, 'hook', 'inc', order)
            if self._quiet():
                pass
            elif P['resize_always'] and self.position.qty != 0:
                self._set_exits(r, 1 if self.position.qty > 0 else -1, abs(self.position.qty), 'both')
            elif r.random() < P['p_edit_increased'] and self.position.qty != 0:
                sign = 1 if self.position.qty > 0 else -1
                self._set_exits(r, sign, abs(self.position.qty), r.choice(['sl', 'tp', 'both']))
            self._decl('on_increased_position')

        def on_reduced_position(self, order):
            r = self._r('on_reduced')
            log(self, 'hook', 'red', order)
            if self._quiet():
                pass
            elif P['resize_always'] and self.position.qty != 0:
                self._set_exits(r, 1 if self.position.qty > 0 else -1, abs(self.position.qty), 'both')
            elif r.random() < P['p_inplace'] and self._inplace(r):
                pass
            elif r.random() < P['p_withdraw'] and self._withdraw(r):
                pass
            elif r.random() < P['p_edit_reduced'] and self.position.qty != 0:
                sign = 1 if self.position.qty > 0 else -1
                if r.random() < 0.5:        # stop moved to (about) break-even for what is left
                    be = round(self.position.entry_price / tick) * tick          # lattice point next to the average entry
                    self.stop_loss = abs(self.position.qty), be - sign * r.randint(0, 3) * tick
                else:
                    self._set_exits(r, sign, abs(self.position.qty), r.choice(['sl', 'tp', 'both']))
            self._decl('on_reduced_position')

        def on_close_position(self, order):
            log(self, 'hook', 'close', order)
            self._decl('on_close_position')

        def update_position(self):
            r = self._r('update')
            x = r.random()
            if x < P['p_liq']:
                self.liquidate()
            elif P['p_flip'] and r.random() < P['p_flip'] and self.position.qty != 0:
                n = abs(self.position.qty) + r.choice([1, 2])          # strictly larger than the position: a true flip
                if self.position.qty > 0:
                    self.broker.sell_at_market(n)
                else:
                    self.broker.buy_at_market(n)
            elif x > 1 - P['p_inplace']:
                self._inplace(r)
            elif x > 1 - P['p_inplace'] - P['p_withdraw']:
                self._withdraw(r)
            elif x > 1 - P['p_inplace'] - P['p_withdraw'] - P['p_move_entry']:
                self._move_entry(r)
            elif x < P['p_liq'] + P['p_edit'] and self.position.qty != 0:
                sign = 1 if self.position.qty > 0 else -1
                self._set_exits(r, sign, abs(self.position.qty), r.choice(['sl', 'tp', 'both']))
            elif x < P['p_liq'] + P['p_edit'] + P['p_edit_entry'] and self.position.qty != 0:
                sign = 1 if self.position.qty > 0 else -1
                rows = self._rows(r, -sign)
                if sign > 0:
                    self.buy = rows
                else:
                    self.sell = rows
            self._decl('update_position')

        def before(self):
            self._hook_edits = 0
            log(self, 'step', None)

        def after(self):
            log(self, 'after', None)

    return Pol


# ------------------------------------------------------------------------------------------------ recording
class StratRec:
    def __init__(self, item):
        self.item = item
        self.ev = []
        self.orders = {}          # ordinal -> Order
        self.nsym_all = item['nsym'] + item.get('ndata', 0)       # trading symbols + symbols that only have data routes
        self.sym_idx = {s: i + 1 for i, s in enumerate(SYMS[:self.nsym_all])}
        self.tick = item['policy'].get('tick', DEFAULT['tick'])
        self.punit = self.tick / item.get('pdiv', 1)        # price lattice (finer than the tick when liquidation prices occur)
        self.qunit = 1.0 / item.get('qdiv', 1)              # quantity lattice (spot: the fee is taken from the base asset)
        self.in_liq = 0
        self.fills_in_step = 0
        self.cm = {}              # symbol -> minute of the 1m candle being matched (from the partial candle), or absent
        self.rec = S.Recorder()

    # encoders
    def P(self, x):
        return _lattice(x, self.punit, 'price')

    def Q(self, x):
        return _lattice(x, self.qunit, 'qty')

    def emit(self, k, **f):
        f['k'] = k
        self.ev.append(f)
        return f

    def active(self, sym):
        res = []
        for i, o in sorted(self.orders.items()):
            if o.symbol == sym and o.is_active:
                res.append(i)
        return res

    def order_rec(self, i):
        o = self.orders[i]
        return {'o': i, 'side': o.side, 'type': o.type, 'q': self.Q(abs(o.qty)), 'p': self.P(o.price), 'ro': bool(o.reduce_only),
                'via': o.submitted_via or 'none'}

    def rows(self, var):
        return [[self.Q(q), self.P(p)] for q, p in rows_of(var)]

    def log(self, strat, kind, name, order=None):
        s = self.sym_idx[strat.symbol]
        q = self.Q(strat.position.qty)
        if kind == 'step':
            self.fills_in_step = 0
            self.emit('step', s=s, i=strat.index, q=q, t=int((strat.time - S.T0) // S.MIN),
                      rest=[i for i in self.active(strat.symbol) if not self.orders[i].reduce_only
                            and self.orders[i].submitted_via is None],
                      act=[self.order_rec(i) for i in self.active(strat.symbol)],
                      sl=self.rows(strat.stop_loss), tp=self.rows(strat.take_profit),
                      hl=strat.stop_loss is not None, ht=strat.take_profit is not None,
                      buy=self.rows(strat.buy), sell=self.rows(strat.sell))
        elif kind == 'decl':
            self.emit('decl', s=s, h=name, q=q, buy=self.rows(strat.buy), sell=self.rows(strat.sell),
                      sl=self.rows(strat.stop_loss), tp=self.rows(strat.take_profit),
                      hl=strat.stop_loss is not None, ht=strat.take_profit is not None)
        elif kind == 'hook':
            self.emit('hook', s=s, n=name, q=q, o=getattr(order, '_v_ord', 0), t=int((strat.time - S.T0) // S.MIN))
        elif kind == 'after':
            self.emit('after', s=s, i=strat.index, q=q, sce=bool(strat.should_cancel_entry()),
                      act=[self.order_rec(i) for i in self.active(strat.symbol)],
                      sl=self.rows(strat.stop_loss), tp=self.rows(strat.take_profit),
                      hl=strat.stop_loss is not None, ht=strat.take_profit is not None,
                      buy=self.rows(strat.buy), sell=self.rows(strat.sell))

    def install(self):
        from jesse.models import Order
        from jesse.store import store
        from jesse.routes import router
        me = self
        orig_init, orig_exec, orig_cancel = Order.__init__, Order.execute, Order.cancel
        self._orig = (orig_init, orig_exec, orig_cancel)

        def strat_of(sym):
            for r in router.routes:
                if r.symbol == sym:
                    return r.strategy
            return None

        def init(self_, *a, **k):
            orig_init(self_, *a, **k)
            i = len(me.orders) + 1
            self_._v_ord = i
            me.orders[i] = self_
            st = strat_of(self_.symbol)
            pos = store.positions.storage['%s-%s' % (self_.exchange, self_.symbol)]
            me.emit('submit', s=me.sym_idx[self_.symbol], o=i, side=self_.side, type=self_.type, q=me.Q(abs(self_.qty)),
                    p=me.P(self_.price), ro=bool(self_.reduce_only), cur=me.P(st.price), pq=me.Q(pos.qty), _ord=i,
                    liq=me.in_liq > 0,
                    pe=(_round_or_nan(pos.entry_price, me.punit / 1000) if pos.entry_price is not None and pos.qty != 0 else -1))

        def execute(self_, *a, **k):
            if not self_.is_active:
                return orig_exec(self_, *a, **k)
            me.fills_in_step += 1
            if me.fills_in_step > MAX_FILLS_PER_STEP:
                raise VerifAbort('more than %d fills without a strategy step in between' % MAX_FILLS_PER_STEP)
            pos = store.positions.storage['%s-%s' % (self_.exchange, self_.symbol)]
            s = me.sym_idx[self_.symbol]
            me.emit('fillb', s=s, o=self_._v_ord, side=self_.side, type=self_.type, q=me.Q(abs(self_.qty)), p=me.P(self_.price),
                    ro=bool(self_.reduce_only), qb=me.Q(pos.qty), t=int((store.app.time - S.T0) // S.MIN),
                    cm=me.cm.get(self_.symbol, -1))
            try:
                return orig_exec(self_, *a, **k)
            finally:
                me.emit('fille', s=s, o=self_._v_ord, qa=me.Q(pos.qty),
                        act=[me.order_rec(i) for i in me.active(self_.symbol)])

        def cancel(self_, *a, **k):
            was = self_.is_active
            r = orig_cancel(self_, *a, **k)
            if was and self_.is_canceled:
                me.emit('cancel', s=me.sym_idx[self_.symbol], o=self_._v_ord)
            return r

        Order.__init__, Order.execute, Order.cancel = init, execute, cancel

        # the independent clock of C06: which 1m candles are being matched (inputs of the two matching functions) and
        # which of them the price is in when an order is about to fill (timestamp of the partial candle)
        from jesse.modes import backtest_mode as bm
        o_step, o_fast, o_part = bm._simulate_price_change_effect, bm._simulate_price_change_effect_multiple_candles, \
            bm._update_all_routes_a_partial_candle

        def window(cs, symbol):
            lo, hi = [], []
            for i, c in enumerate(cs):
                l, h = float(c[4]), float(c[3])
                if i > 0:                       # range extended to the previous close
                    l, h = min(l, float(cs[i - 1][2])), max(h, float(cs[i - 1][2]))
                lo.append(me.P(l))
                hi.append(me.P(h))
            me.cm.pop(symbol, None)
            me.emit('match', s=me.sym_idx[symbol], t0=int((int(cs[0][0]) - S.T0) // S.MIN), lo=lo, hi=hi)

        def step(real_candle, exchange, symbol):
            window([real_candle], symbol)
            try:
                return o_step(real_candle, exchange, symbol)
            finally:
                me.cm.pop(symbol, None)

        def fast(candles, exchange, symbol):
            window(list(candles), symbol)
            try:
                return o_fast(candles, exchange, symbol)
            finally:
                me.cm.pop(symbol, None)

        def part(exchange, symbol, candle):
            me.cm[symbol] = int((int(candle[0]) - S.T0) // S.MIN)
            return o_part(exchange, symbol, candle)

        o_liq = bm._check_for_liquidations

        def liq(candle, exchange, symbol):      # isolated margin: the liquidation order is created and executed in here,
            me.cm.pop(symbol, None)             # after the matching of the minute / chunk is over
            me.in_liq += 1
            try:
                return o_liq(candle, exchange, symbol)
            finally:
                me.in_liq -= 1

        self._orig_bm = (o_step, o_fast, o_part, o_liq)
        bm._simulate_price_change_effect, bm._simulate_price_change_effect_multiple_candles = step, fast
        bm._update_all_routes_a_partial_candle = part
        bm._check_for_liquidations = liq

    def uninstall(self):
        from jesse.models import Order
        Order.__init__, Order.execute, Order.cancel = self._orig
        if getattr(self, '_orig_bm', None):
            from jesse.modes import backtest_mode as bm
            (bm._simulate_price_change_effect, bm._simulate_price_change_effect_multiple_candles,
             bm._update_all_routes_a_partial_candle, bm._check_for_liquidations) = self._orig_bm

    def finish(self, out):
        # final tags: submitted_via is set after Order.__init__ returns
        open_fill = {}
        for e in self.ev:
            if e['k'] == 'submit':
                o = self.orders[e.pop('_ord')]
                e['via'] = o.submitted_via or 'none'
            elif e['k'] == 'fillb':
                open_fill[e['o']] = e
                e['via'] = self.orders[e['o']].submitted_via or 'none'
            elif e['k'] == 'fille':
                open_fill[e['o']]['qa'] = e['qa']      # plumbing: the monitor needs the size after at the fill's begin
        fin = out.get('final') or {}
        if out.get('exc'):
            self.emit('exc', cls=out['exc'].split(':')[0], msg=out['exc'].split(':', 1)[1].strip()[:40] if ':' in out['exc'] else '')
        fee = self.item['fee']             # [num, den]
        u = self.punit * self.qunit / fee[1]      # money lattice: quantity unit * price unit / fee denominator
        if self.item.get('spot') and fee[0] != 0:
            u = self.punit / 1024                 # spot: compared only in fee-free sessions (where the trade formula is exact)
        trades = []
        for t in fin.get('trades', []):
            den = 1000
            trades.append({'s': self.sym_idx[t['sym']], 'type': str(t['type']), 'q8': _round_or_nan(t['qty'], self.qunit / 8),
                           'entry': _round_or_nan(t['entry'], self.punit / den), 'exit': _round_or_nan(t['exit'], self.punit / den),
                           'pnl': _round_or_nan(t['pnl'], u), 'fee': _round_or_nan(t['fee'], u),
                           'opened': int((t['opened_at'] - S.T0) // S.MIN), 'closed': int((t['closed_at'] - S.T0) // S.MIN),
                           'orders': list(t['orders'])})
        ex = self.item['config']['exchange']
        w1 = (fin.get('accts') or {}).get(ex, {}).get('wallet')
        if w1 is None and (fin.get('accts') or {}).get(ex, {}).get('type') == 'spot':
            w1 = fin['accts'][ex]['assets'].get('USDT')
        res = out.get('result') or {}
        m = res.get('metrics') if isinstance(res, dict) else None
        has_m = bool(m) and 'net_profit' in (m or {})
        self.emit('end', trades=trades, w0=_lattice(float(self.item['config']['starting_balance']), u, 'w0'),
                  w1=(_round_or_nan(w1, u) if w1 is not None else -1), has_wallet=w1 is not None,
                  has_metrics=has_m, np=(_round_or_nan(m['net_profit'], u) if has_m else 0),
                  fb=(_round_or_nan(m['finishing_balance'], u) if has_m else 0), total=(int(m['total']) if has_m else 0),
                  completed=not out.get('exc'), expect_metrics=bool(self.item.get('expect_metrics', True)))
        return self.ev


NANV = -999999999


def _round_or_nan(x, unit):
    import math
    if x is None or (isinstance(x, float) and (math.isnan(x) or math.isinf(x))):
        return NANV
    from fractions import Fraction
    v = int(round(Fraction(float(x)) / Fraction(unit)))
    if abs(v) >= 2 ** 31 - 1:
        raise S_Overflow('value %r / %r does not fit 31 bits' % (x, unit))
    return v


class S_Overflow(Exception):
    pass


def _lattice(x, unit, what):
    """x as an integer count of `unit`; tolerates float noise (0.95 * 101), refuses anything off the lattice"""
    q = float(x) / unit
    r = int(round(q))
    if abs(q - r) > 1e-6 * max(1.0, abs(q)) or abs(r) >= 2 ** 31 - 1:
        from ..encode import EncodeError
        raise EncodeError('%s=%r is not a multiple of %r' % (what, x, unit))
    return r


# ------------------------------------------------------------------------------------------------ one run
def build_candles(item):
    pol = item['policy']
    tick = pol.get('tick', DEFAULT['tick'])
    base = pol.get('base', DEFAULT['base'])
    w = item.get('walk', {})
    out = {}
    for si in range(item['nsym'] + item.get('ndata', 0)):
        a = S.lattice_walk(item['n'], item['cseed'] * 131 + si, start=base + 3 * si, step=w.get('step', 2), wick=w.get('wick', 2),
                           floor=max(5, base - w.get('room', 60)), flat_p=w.get('flat_p', 0.15), gap_p=w.get('gap_p', 0.1),
                           scale=tick)
        out[SYMS[si]] = a
    return out


def config_of(item):
    fee = item['fee']
    if item.get('spot'):
        return S.spot_config(balance=item.get('balance', 100000), fee=fee[0] / fee[1])
    return S.futures_config(balance=item.get('balance', 100000), fee=fee[0] / fee[1], lev=item.get('lev', 2),
                            mode=item.get('mode', 'cross'))


def run_item(item):
    """-> {'id', 'hdr', 'ev'} (encoded) ; exceptions of jesse end the trace with an 'exc' event"""
    item = dict(item)
    item['config'] = config_of(item)
    rec = StratRec(item)
    cls = make_strategy(item['policy'], rec.log)
    rec.install()
    try:
        routes = [{'symbol': SYMS[si], 'timeframe': (item['tfs'][si] if item.get('tfs') else item.get('tf', '1m'))} for si in range(item['nsym'])]
        data_routes = [{'symbol': SYMS[si], 'timeframe': tf} for si, tf in item.get('data', [])]
        out = S.run_backtest(None, item['config'], build_candles(item), strategy_cls=cls, fast=item.get('fast', False), routes=routes,
                             data_routes=data_routes)
    finally:
        rec.uninstall()
    ev = rec.finish(out)
    hdr = {'nsym': item['nsym'] + item.get('ndata', 0), 'spot': bool(item.get('spot')), 'fee_n': item['fee'][0], 'fee_d': item['fee'][1], 'n': item['n'],
           'pseed': item['policy'].get('seed', 0), 'cseed': item['cseed'], 'pden': 1000,
           'exc': (out.get('exc') or 'none')[:120]}
    return {'id': item['id'], 'hdr': hdr, 'ev': ev}


def warm_parent():
    """import jesse (and numba-compiled helpers) once in the parent, without running a session"""
    import jesse.helpers  # noqa
    from jesse.research import backtest  # noqa
    from jesse.modes import backtest_mode  # noqa
    from jesse.strategies import Strategy  # noqa
    return True


# ------------------------------------------------------------------------------------------------ item generators
def gen_items(seed, count, kinds, n_minutes=240):
    """policy families (cycled):
       near   - price 20000, tick 1: offsets within +-4 ticks incl. the 0.015 % boundary (3 ticks = knife edge)
       ladder - price 100: multi-point entries, partial take-profits, moved stops, liquidate(), frequent edits
       wrong  - exits on the wrong side of the entry (market replacement) incl. oversize rows
       over   - full-size stop next to partial take-profits (oversize reduce-only fills)
       two    - two symbols
       sized  - exits re-declared for the current position size in every position hook (never oversize)
       tf5 / fast / spot - 5m trading route / fast simulator / spot account"""
    rng = random.Random(seed)
    items = []
    for j in range(count):
        kind = kinds[j % len(kinds)]
        pol = dict(seed=rng.randrange(10 ** 6), entry_every=rng.choice([7, 9, 11]), p_cancel=rng.choice([0.2, 0.5, 0.8]))
        it = dict(id=j + 1, kind=kind, nsym=1, n=n_minutes, cseed=rng.randrange(10 ** 6),
                  fee=rng.choice([[0, 1], [1, 1024], [1, 2048]]), lev=rng.choice([1, 2, 5]), balance=100000)
        if kind == 'near':
            pol.update(base=20000, tick=1.0, qtys=(1, 2), entry_offsets=(0, -1, -2, -3, -4, 1, 2, 3, 4, -6, 6),
                       max_entry_rows=rng.choice([1, 2, 3]), sl_dist=(1, 6), tp_dist=(1, 6), max_exit_rows=rng.choice([1, 2]),
                       exits_in=rng.choice(['go', 'on_open', 'mixed']), p_edit=0.3, p_liq=0.03, p_edit_entry=0.05)
            it.update(balance=1000000, fee=rng.choice([[0, 1], [1, 1024]]), walk=dict(step=3, wick=3, room=2000))
        elif kind == 'ladder':
            pol.update(base=100, tick=1.0, qtys=(1, 2, 3), max_entry_rows=rng.choice([2, 3]), max_exit_rows=rng.choice([2, 3]),
                       exits_in=rng.choice(['go', 'on_open', 'mixed']), p_edit=0.25, p_liq=0.04, p_edit_reduced=0.6,
                       p_edit_increased=0.5, p_edit_entry=rng.choice([0.0, 0.05]))
        elif kind == 'wrong':
            pol.update(base=100, tick=1.0, qtys=(1, 2), max_entry_rows=2, max_exit_rows=2, exits_in=rng.choice(['go', 'mixed']),
                       p_wrong_side=0.25, p_oversize=rng.choice([0.0, 0.3]), p_edit=0.1)
        elif kind == 'over':
            pol.update(base=100, tick=1.0, qtys=(1, 2), max_entry_rows=2, max_exit_rows=2, exits_in='go', oversize_sl=True,
                       p_edit=0.0, p_edit_reduced=0.0, p_edit_increased=0.0, p_liq=0.02)
        elif kind == 'two':
            pol.update(base=100, tick=1.0, qtys=(1, 2), max_entry_rows=2, max_exit_rows=2, exits_in=rng.choice(['go', 'on_open']),
                       p_edit=0.2)
            it.update(nsym=2)
        elif kind == 'half':
            pol.update(base=200, tick=0.5, qtys=(1, 2, 4), max_entry_rows=2, max_exit_rows=3, exits_in='mixed', p_edit=0.2)
        elif kind == 'sized':      # exits always sized to the open position (no oversize reduce-only fills, no wrong side)
            pol.update(base=100, tick=1.0, qtys=(1, 2, 3), max_entry_rows=rng.choice([2, 3]), max_exit_rows=rng.choice([2, 3]),
                       exits_in='on_open', resize_always=True, p_edit=0.25, p_liq=0.04, entry_offsets=(0, 0, -1, -2, 1, 2))
        elif kind == 'tf5':        # 5m trading route: several fills between two strategy steps
            pol.update(base=100, tick=1.0, qtys=(1, 2), max_entry_rows=3, max_exit_rows=3, exits_in=rng.choice(['go', 'on_open', 'mixed']),
                       p_edit=0.3, p_edit_reduced=0.5, p_edit_increased=0.5, entry_every=rng.choice([3, 4, 5]), long_phase=1, short_phase=2,
                       sl_dist=(3, 9), tp_dist=(2, 8))
            it.update(tf='5m', n=(n_minutes // 5) * 5 * 2)
        elif kind == 'spot':       # spot account: exits may only be declared once the position is open; no shorts, no fee
            pol.update(base=100, tick=1.0, qtys=(1, 2), max_entry_rows=2, max_exit_rows=2, exits_in='on_open', allow_short=False,
                       p_edit=0.25, resize_always=True, p_edit_entry=0.0, p_liq=0.0, p_inplace=0.0, p_withdraw=0.0)
            it.update(spot=True, fee=[0, 1])
        elif kind == 'pyramid':    # scale-in entries (market row + stop rows further out) with the exits declared in go_long/go_short
            # BETWEEN the first fill and the declared average entry: they are on the right side of the position's entry price
            pol.update(base=100, tick=1.0, qtys=(1, 2), max_entry_rows=rng.choice([2, 3]), entry_offsets=(0, 0, -6, -8, -10), max_exit_rows=2,
                       exits_in='go', sl_dist=(2, 4), tp_dist=(1, 4), p_edit=0.1, p_liq=0.02, p_cancel=0.3, entry_every=rng.choice([7, 9]))
        elif kind == 'flipper':    # C06 quantifies over position flips: the strategy itself sends an opposite, larger, non-reduce-only order
            pol.update(base=100, tick=1.0, qtys=(1, 2), max_entry_rows=1, max_exit_rows=1, exits_in=rng.choice(['go', 'none']),
                       sl_dist=(10, 14), tp_dist=(10, 14), p_edit=0.0, p_liq=0.0, p_inplace=0.0, p_withdraw=0.0, p_edit_reduced=0.0,
                       p_edit_increased=0.0, p_flip=0.2, entry_every=rng.choice([7, 9]))
        elif kind == 'allin':      # cross margin x10, the whole leveraged wallet in one position, wide stop: one loss exceeds the wallet
            pol.update(base=100, tick=1.0, qtys=(80, 90), max_entry_rows=1, entry_offsets=(0,), max_exit_rows=1, exits_in='go',
                       sl_dist=(18, 24), tp_dist=(50, 60), p_edit=0.0, p_liq=0.0, p_inplace=0.0, p_withdraw=0.0, p_edit_reduced=0.0,
                       p_edit_increased=0.0, entry_every=rng.choice([3, 5]), long_phase=1, short_phase=2, p_signed=0.5)
            it.update(lev=10, mode='cross', balance=1000, fee=rng.choice([[0, 1], [1, 1024]]), walk=dict(step=7, wick=5, room=80, flat_p=0.02))
        elif kind == 'isoallin':   # isolated x20, all-in, fee > 0: the liquidation loss plus fees exceeds the wallet
            pol.update(base=100, tick=1.0, qtys=(195, 197), max_entry_rows=1, entry_offsets=(0,), max_exit_rows=1, exits_in='on_open',
                       sl_dist=(10, 12), tp_dist=(30, 40), p_edit=0.0, p_liq=0.0, p_inplace=0.0, p_withdraw=0.0, p_edit_reduced=0.0,
                       p_edit_increased=0.0, entry_every=rng.choice([3, 5]), long_phase=1, short_phase=2)
            it.update(lev=20, mode='isolated', pdiv=20, balance=1000, fee=[1, 1024], walk=dict(step=3, wick=2, room=80, flat_p=0.02))
        elif kind == 'iso':        # isolated margin, leverage 20: positions without a stop run into the liquidation order
            pol.update(base=100, tick=1.0, qtys=(1, 2), max_entry_rows=1, entry_offsets=(0, 0, -1, 1), max_exit_rows=2,
                       exits_in='on_open', sl_dist=(8, 12), tp_dist=(3, 9), p_edit=0.1, p_liq=0.0, p_edit_reduced=0.3, resize_always=False,
                       entry_every=rng.choice([5, 7]), p_cancel=0.8, p_inplace=0.0)     # (one entry fill per cycle: 0.95 * entry stays on the lattice)
            it.update(lev=20, mode='isolated', pdiv=20, walk=dict(step=3, wick=2, room=70, flat_p=0.05), balance=20000, fee=rng.choice([[0, 1], [1, 1024]]))
        elif kind in ('tf15', 'tf60'):   # 15m / 1h trading routes plus data routes (another timeframe, another symbol)
            tf = '15m' if kind == 'tf15' else '1h'
            m = 15 if kind == 'tf15' else 60
            pol.update(base=100, tick=1.0, qtys=(1, 2), max_entry_rows=3, max_exit_rows=3, exits_in=rng.choice(['go', 'on_open', 'mixed']),
                       p_edit=0.3, entry_every=rng.choice([2, 3]), long_phase=0, short_phase=1, sl_dist=(4, 12), tp_dist=(3, 10),
                       entry_offsets=(0, -1, -2, -3, 1, 2, 3), resize_always=rng.choice([True, False]))
            it.update(tf=tf, n=m * rng.choice([40, 60]), ndata=1, data=[[0, '1h' if kind == 'tf15' else '4h'], [1, '5m']],
                      fast=rng.choice([False, True]))
        elif kind == 'spotfee':    # spot account with a fee: the fee of a buy is taken from the base asset (position = qty * (1 - fee))
            pol.update(base=100, tick=1.0, qtys=(1, 2), max_entry_rows=2, max_exit_rows=2, exits_in='on_open', allow_short=False,
                       p_edit=0.25, resize_always=True, p_edit_entry=0.0, p_liq=0.0, p_inplace=0.0, p_withdraw=0.0)    # (a market exit next to resting limit sells is rejected in spot)
            it.update(spot=True, fee=[1, 1024], qdiv=1024)
        elif kind in ('big', 'tiny'):   # 100000-priced / 1.2e-6-priced instrument: scale-in rows of an open position moved by 1-2 ticks
            if kind == 'big':
                pol.update(base=200000, tick=0.5, entry_offsets=(0, -40, -60, -80, 50, 70))
                it.update(balance=10000000, fee=[0, 1], walk=dict(step=25, wick=15, room=40000))
            else:
                pol.update(base=600, tick=2e-9, entry_offsets=(0, -3, -5, -8, 4, 6))
                it.update(balance=1, fee=[0, 1], walk=dict(step=2, wick=2, room=400))
            pol.update(qtys=(1, 2), max_entry_rows=3, max_exit_rows=2, exits_in=rng.choice(['go', 'on_open']), p_move_entry=0.3,
                       p_edit=0.1, p_liq=0.02, p_cancel=rng.choice([0.2, 0.8]), entry_every=rng.choice([9, 11]),
                       sl_dist=(120, 200) if kind == 'big' else (12, 20), tp_dist=(100, 180) if kind == 'big' else (10, 18))
        elif kind == 'spotover':   # fee-free spot, full-size stop next to a partial take-profit, never re-sized
            pol.update(base=100, tick=1.0, qtys=(2, 3), max_exit_rows=2, exits_in='on_open', allow_short=False,
                       oversize_sl=True, p_edit=0.0, p_edit_reduced=0.0, p_edit_increased=0.0, p_liq=0.0, p_inplace=0.0, p_edit_entry=0.0,
                       p_withdraw=0.0, max_entry_rows=2, sl_dist=(3, 5), tp_dist=(2, 4), entry_every=rng.choice([5, 7]))
            it.update(spot=True, fee=[0, 1])
        elif kind == 'fast2':      # fast simulator, two symbols, all timeframes > 1m: resting orders fill mid-chunk
            tf = rng.choice(['5m', '15m'])
            pol.update(base=100, tick=1.0, qtys=(1, 2), max_entry_rows=2, max_exit_rows=2, exits_in=rng.choice(['go', 'on_open']),
                       entry_offsets=(-1, -2, -3, 1, 2, 3), entry_every=rng.choice([3, 4]), long_phase=1, short_phase=2,
                       sl_dist=(3, 8), tp_dist=(2, 7), p_edit=0.2, resize_always=True)
            it.update(fast=True, nsym=2, tf=tf, n=(450 if tf == '5m' else 900), walk=dict(step=1, wick=1))
        elif kind == 'fast':       # the fast simulator drives the same strategy code
            pol.update(base=100, tick=1.0, qtys=(1, 2), max_entry_rows=2, max_exit_rows=2, exits_in=rng.choice(['go', 'on_open']),
                       p_edit=0.2)
            it.update(fast=True)
        it['policy'] = pol
        items.append(it)
    return items
