"""C07 drivers: in-vivo backtests that log what a strategy / caller can READ from the candle store.

run_case(case) runs one real `research.backtest` (through harness.session.run_backtest, i.e. under process-state
hygiene) and returns one trace for spec/TraceCandles.tla.  Python only records: every comparison is TLC's.
All candles are on the integer lattice (integer prices / volumes, minute-indexed timestamps)."""
import re
import numpy as np
from .. import session as S
from ..encode import exact_int, EncodeError

TFMIN = {'1m': 1, '3m': 3, '5m': 5, '15m': 15, '30m': 30, '45m': 45, '1h': 60, '2h': 120, '3h': 180, '4h': 240,
         '6h': 360, '8h': 480, '12h': 720, '1D': 1440, '3D': 4320, '1W': 10080}
class RunawayRun(RuntimeError):
    """the observed run produced an absurd number of observations / ran too long (seen with broken candle code that
    makes the simulator loop): the run is aborted, what was recorded up to then is still judged"""


HOOKS = {'on_open_position', 'on_close_position', 'on_increased_position', 'on_reduced_position'}


PRICE_UNIT = [1.0]        # price lattice unit of the case being run (a power of two; 0.125 for the 30000-level series)


def enc_row(r, base):
    """candle row -> exact integers <<minute index, o, c, h, l (in price units), v>>"""
    u = PRICE_UNIT[0]
    return [exact_int(float(r[0]) - base, 60000.0, 'timestamp')] + [exact_int(float(x), u, 'candle field') for x in r[1:5]] + \
           [exact_int(float(r[5]), 1.0, 'volume')]


def enc_rows(a, base):
    return [enc_row(r, base) for r in a]


# ------------------------------------------------------------------------------------------------
# scripted strategy that produces a prescribed number of mid-candle fills per minute (R scenarios)
# ------------------------------------------------------------------------------------------------
def pattern_candles(total, fills, ts0=S.T0):
    """flat series at 100 whose minute m dips to 98 (entry limit at 99 fills) and/or spikes to 102 (take-profit at
    101 fills) as `fills[m]` in {0,1,2} asks; 3 = the order fills exactly at the minute's close while the wick goes
    beyond the close (the partial candle then has the final close and volume but not the final low / high).  Whether it really happens depends on the position - the trace logs
    what did happen."""
    c = np.zeros((total, 6))
    opened = False
    for m in range(total):
        f = fills.get(m, 0)
        o = cl = h = l = 100.0
        if f == 3 and not opened:
            cl, l = 99.0, 97.0                 # the entry limit at 99 fills exactly AT THE CLOSE, the wick goes on to 97
            opened = True
        elif f == 3 and opened:
            cl, h = 101.0, 103.0               # the take-profit at 101 fills exactly at the close, the wick reaches 103
            opened = False
        elif f == 2 and not opened:
            l, h = 98.0, 102.0                 # bullish doji: open -> low -> high -> close
        elif f >= 1 and not opened:
            l = 98.0
            opened = True
        elif f >= 1 and opened:
            h = 102.0
            opened = False
        c[m] = [ts0 + m * S.MIN, o, cl, h, l, 10 + m % 7]
    return c


def make_pattern_strategy(observe):
    from jesse.strategies import Strategy

    class FillPattern(Strategy):
        def should_long(self):
            return True

        def go_long(self):
            self.buy = 1, 99
            self.take_profit = 1, 101
            self.stop_loss = 1, 50

        def should_cancel_entry(self):
            return False

        def before(self):
            observe(self, 'before', None)

        def after(self):
            observe(self, 'after', None)

        def on_open_position(self, order):
            observe(self, 'on_open_position', order)

        def on_close_position(self, order):
            observe(self, 'on_close_position', order)

        def on_increased_position(self, order):
            observe(self, 'on_increased_position', order)

        def on_reduced_position(self, order):
            observe(self, 'on_reduced_position', order)

        def terminate(self):
            observe(self, 'terminate', None)

    return FillPattern


# ------------------------------------------------------------------------------------------------
def _tb_site(tb):
    """innermost traceback frame inside the candle code -> (candle_related, 'file:function')"""
    site = None
    for m in re.finditer(r'File "[^"]*jesse/([^"]+)", line \d+, in (\w+)', tb or ''):
        f, fn = m.group(1), m.group(2)
        if f in ('services/candle.py', 'store/state_candles.py') or 'dynamic_numpy_array' in f:
            site = '%s:%s' % (f.split('/')[-1].replace('.py', ''), fn)
    return (site is not None), (site or 'elsewhere')


def run_case(case):
    """case: id, fast, syms [names], trading [(sym, tf)], data [(sym, tf)], W, N, seed, gen (kwargs of lattice_walk),
    policy (dict) | pattern {minute: fills}, obs_every, full_samples.  Returns a TraceCandles trace."""
    from jesse.store import store
    from jesse.modes import backtest_mode as bm
    syms = case['syms']
    W, N = case['W'], case['N']
    PRICE_UNIT[0] = float(case.get('unit', 1.0))
    base = float(S.T0)
    ex = S.FUT
    raw = {}
    for j, s in enumerate(syms):
        if case.get('pattern') is not None:
            raw[s] = pattern_candles(W + N, {W + int(m): f for m, f in case['pattern'].items()})
        else:
            raw[s] = S.lattice_walk(W + N, case['seed'] * 7 + j, scale=PRICE_UNIT[0], **case.get('gen', {}))
    readable = []
    for s in syms:
        tfs = {'1m'} | {tf for (x, tf) in case['trading'] + case['data'] if x == s}
        readable += [(s, tf) for tf in sorted(tfs, key=lambda t: TFMIN[t])]
    st = dict(ev=[], lastpart={}, fills=0, fin=None, steps=0, hookreads=0, formingreads=0, fill_minutes=set(), skipped=0)
    full_at = set(case.get('full_samples', []))
    every = max(1, case.get('obs_every', 1))

    def tail1(a):
        return enc_rows(a[-2:], base) if len(a) else []

    # TLC recomputes a window of T rows per read: large timeframes are read at a stride (always at the end)
    nsteps = max(1, N // min(TFMIN[tf] for (_, tf) in case['trading']))
    stride = {}
    for (s, tf) in readable:
        T = TFMIN[tf]
        budget = 12 if T >= 4320 else (40 if T >= 720 else (160 if T >= 120 else 0))
        stride[(s, tf)] = max(1, -(-2 * nsteps // budget)) if budget else 1
    opp = {}

    def read_all(at, force_full=False, strategy=None, own_only=False):
        for (s, tf) in readable:
            if own_only and not (strategy is not None and s == strategy.symbol and tf == strategy.timeframe):
                continue
            T = TFMIN[tf]
            opp[(s, tf)] = opp.get((s, tf), 0) + 1
            if at != 'end' and opp[(s, tf)] % stride[(s, tf)] != 0 and opp[(s, tf)] > 2:
                continue
            try:
                read_one(at, force_full, s, tf, T, strategy)
            except EncodeError:          # a partial candle at a non-integer fill price: this read cannot be encoded exactly
                st['skipped'] += 1

    def read_one(at, force_full, s, tf, T, strategy):
        # everything is read the way a strategy reads it: its own route through the properties Strategy.candles /
        # current_candle / open / close / high / low / price, every other (symbol, timeframe) through self.get_candles
        own = strategy is not None and s == strategy.symbol and tf == strategy.timeframe
        if True:
            e = dict(k='read', s=syms.index(s) + 1, T=T, at=at, ok=True, exc='none', n=0, rows=[], n1=0, m1tail=[],
                     cur=[], curok=True, curexc='none', full=[], isfull=False, part=[],
                     via=('Strategy.candles' if own else 'get_candles'), ohlcp=[])
            m1 = store.candles.get_candles(ex, s, '1m')
            e['n1'] = int(len(m1))
            e['m1tail'] = tail1(m1)
            try:
                a = strategy.candles if own else (strategy.get_candles(ex, s, tf) if strategy is not None
                                                  else store.candles.get_candles(ex, s, tf))
                e['n'] = int(len(a))
                e['rows'] = enc_rows(a[-2:], base)
                if (force_full or st['steps'] in full_at) and T > 1:
                    e['full'] = enc_rows(a, base)
                    e['isfull'] = True
            except EncodeError:
                raise
            except Exception as ex_:
                e['ok'] = False
                e['exc'] = type(ex_).__name__
            try:
                c = strategy.current_candle if own else store.candles.get_current_candle(ex, s, tf)
                e['cur'] = [enc_row(c, base)] if len(c) else []
                if own and len(c):
                    u = PRICE_UNIT[0]
                    e['ohlcp'] = [exact_int(float(x), u, 'price property') for x in
                                  (strategy.open, strategy.close, strategy.high, strategy.low, strategy.price)]
                if not len(c) and e['n1'] > 0:
                    e['curok'] = False
                    e['curexc'] = 'empty'
            except EncodeError:
                raise
            except Exception as ex_:
                e['curok'] = False
                e['curexc'] = type(ex_).__name__
            lp = st['lastpart'].get(s)
            if lp is not None and T > 1 and e['n1'] % T != 0:
                lo = ((e['n1'] + T - 1) // T - 1) * T            # first minute index of the forming window
                if lp[0] >= lo:
                    e['part'] = [lp]
            if T > 1 and e['n1'] % T != 0:
                st['formingreads'] += 1
            st['ev'].append(e)

    max_ev = 4000 + 60 * (W + N)
    deadline = [None]

    def observe(strategy, name, order):
        import time
        if len(st['ev']) > max_ev or (deadline[0] is not None and time.time() > deadline[0]):
            raise RunawayRun('%d events' % len(st['ev']))
        try:
            _observe(strategy, name, order)
        except EncodeError as ex_:            # never let the observer change the run; the check reports it as machinery
            st['enc_err'] = str(ex_)

    def _observe(strategy, name, order):
        if name in HOOKS:
            st['hookreads'] += 1
            read_all('hook', strategy=strategy)
        elif name == 'before':
            st['steps'] += 1
            if st['steps'] % every == 0 or st['steps'] <= 3 or st['steps'] in full_at:
                read_all('step', strategy=strategy)
            else:
                read_all('step', strategy=strategy, own_only=True)      # the route's own properties at EVERY execution
        elif name == 'after':
            read_all('step', strategy=strategy, own_only=True)
        elif name == 'terminate':
            read_all('end', force_full=True, strategy=strategy)
            st['fin'] = {s: enc_rows(store.candles.get_candles(ex, s, '1m'), base) for s in syms}

    orig = bm._update_all_routes_a_partial_candle

    def upd(exchange, symbol, candle):
        r = orig(exchange, symbol, candle)
        st['fills'] += 1
        try:
            st['lastpart'][symbol] = enc_row(candle, base)
            st['fill_minutes'].add((symbol, st['lastpart'][symbol][0]))
        except EncodeError:
            st['lastpart'][symbol] = None
        return r
    bm._update_all_routes_a_partial_candle = upd
    import time as _time
    deadline[0] = _time.time() + case.get('time_limit', 240)
    try:
        cls = make_pattern_strategy(observe) if case.get('pattern') is not None else None
        routes = [{'symbol': s, 'timeframe': tf} for (s, tf) in case['trading']]
        data_routes = [{'symbol': s, 'timeframe': tf} for (s, tf) in case['data']]
        cfg = S.futures_config(balance=case.get('balance', 100000), lev=2, warmup=case.get('warm_cfg', 0))
        out = S.run_backtest(case.get('policy') or {}, cfg, {s: raw[s][W:].copy() for s in syms}, routes=routes,
                             data_routes=data_routes, fast=case['fast'], observe=observe, strategy_cls=cls,
                             warmup=({s: raw[s][:W].copy() for s in syms} if W else None))
    finally:
        bm._update_all_routes_a_partial_candle = orig
    exc = 'none'
    if out['exc'] is not None:
        exc = out['exc'].split(':')[0]
        rel, site = _tb_site(out.get('tb'))
        fin = {}
        for s in syms:
            try:
                fin[s] = enc_rows(store.candles.get_candles(ex, s, '1m'), base)
            except Exception:
                fin[s] = []
        st['fin'] = fin
        st['ev'].append(dict(k='exc', cls=exc, site=site, candle_related=bool(rel), n=N, msg=out['exc'][:160]))
        S.reset_process_state()
        try:
            store.reset()
        except Exception:
            pass
    if st['fin'] is None:
        st['fin'] = {s: [] for s in syms}
    for j, s in enumerate(syms):
        st['ev'].append(dict(k='final', s=j + 1))
    hdr = dict(mode='fast' if case['fast'] else 'step', step=int(case.get('chunk', 1)), W=W, N=N, exc=exc,
               epoch0=int(S.T0 // 60000),
               routes=['%s:%s' % r for r in case['trading']], data=['%s:%s' % r for r in case['data']],
               syms=[dict(name=s, inp=enc_rows(raw[s], base), fin=st['fin'][s]) for s in syms])
    stats = dict(fills=st['fills'], steps=st['steps'], hookreads=st['hookreads'], formingreads=st['formingreads'],
                 skipped=st['skipped'], fill_minutes=sorted(m for (_, m) in st['fill_minutes']), reads=sum(1 for e in st['ev'] if e['k'] == 'read'))
    return dict(id=case['id'], hdr=hdr, ev=st['ev'], stats=stats, case=case, enc_err=st.get('enc_err'))


def chunk_of(case):
    import math
    g = 0
    for (_, tf) in case['trading'] + case['data']:
        g = math.gcd(g, TFMIN[tf])
    return g


# ------------------------------------------------------------------------------------------------
# candle-generation helpers driven directly
# ------------------------------------------------------------------------------------------------
def helper_traces(rng, n_cases, first_id):
    from jesse.services import candle as cs
    from jesse.modes import backtest_mode as bm
    import jesse.helpers as jh
    from jesse import utils
    traces = []
    base = float(S.T0)
    tid = first_id
    names = list(TFMIN)
    ev = [dict(k='tables', names=names, utils=[int(utils.timeframe_to_one_minutes(t)) for t in names],
               sim=[int(bm.timeframe_to_one_minutes[t]) for t in names])]
    for t in names:                       # jh.timeframe_to_one_minutes must agree too (it is what the store uses)
        if jh.timeframe_to_one_minutes(t) != utils.timeframe_to_one_minutes(t):
            ev[0]['utils'][names.index(t)] = int(jh.timeframe_to_one_minutes(t))
    traces.append(dict(id=tid, hdr=dict(mode='helper', step=1, W=0, N=0, exc='none', epoch0=0, syms=[]), ev=ev))
    for c in range(n_cases):
        tid += 1
        tf = rng.choice(['3m', '5m', '15m', '30m', '45m', '1h', '2h', '4h'] if c % 3 else ['3m', '5m', '15m'])
        T = TFMIN[tf]
        n = rng.choice([0, 1, T - 1, T, T + 1, 2 * T, 3 * T + rng.randint(0, T - 1), rng.randint(1, 4 * T)])
        a = S.lattice_walk(max(n, 1), rng.randrange(10 ** 6), gap_p=0.3)[:n]
        ev = []
        e = dict(k='gen', T=T, inp=enc_rows(a, base), ok=True, exc='none', out=[])
        try:
            g = cs._get_generated_candles(tf, a.copy())
            e['out'] = enc_rows(g, base) if len(g) else []
        except EncodeError:
            raise
        except Exception as ex_:
            e['ok'] = False
            e['exc'] = type(ex_).__name__
        ev.append(e)
        for accept in (True, False):
            for m in sorted({0, 1, T - 1, T, min(n, T + 1), n}):
                if m > n:
                    continue
                lo = rng.randint(0, n - m)
                e = dict(k='one', T=T, accept=accept, inp=enc_rows(a[lo:lo + m], base), ok=True, exc='none', out=[])
                try:
                    g = cs.generate_candle_from_one_minutes(tf, a[lo:lo + m].copy(), accept)
                    e['out'] = [enc_row(g, base)]
                except EncodeError:
                    raise
                except Exception as ex_:
                    e['ok'] = False
                    e['exc'] = type(ex_).__name__
                ev.append(e)
        traces.append(dict(id=tid, hdr=dict(mode='helper', step=1, W=0, N=0, exc='none', epoch0=0, syms=[]), ev=ev))
    return traces


def rerun_helper_event(e):
    """re-drive one recorded helper event (replay)"""
    from jesse.services import candle as cs
    from jesse.modes import backtest_mode as bm
    from jesse import utils
    base = float(S.T0)
    tf = [k for k, v in TFMIN.items() if v == e.get('T', 1)][0]
    if e['k'] == 'tables':
        names = e['names']
        ev = dict(k='tables', names=names, utils=[int(utils.timeframe_to_one_minutes(t)) for t in names],
                  sim=[int(bm.timeframe_to_one_minutes[t]) for t in names])
    else:
        a = np.array([[base + r[0] * 60000.0] + [float(x) for x in r[1:]] for r in e['inp']]).reshape(-1, 6)
        ev = dict(e, ok=True, exc='none', out=[])
        try:
            if e['k'] == 'gen':
                g = cs._get_generated_candles(tf, a)
                ev['out'] = enc_rows(g, base) if len(g) else []
            else:
                ev['out'] = [enc_row(cs.generate_candle_from_one_minutes(tf, a, e['accept']), base)]
        except EncodeError:
            raise
        except Exception as ex_:
            ev['ok'] = False
            ev['exc'] = type(ex_).__name__
    return dict(id=1, hdr=dict(mode='helper', step=1, W=0, N=0, exc='none', epoch0=0, syms=[]), ev=[ev],
                stats=dict(fills=0, steps=0, hookreads=0, formingreads=0, fill_minutes=[], reads=0))
