"""R for C10 / C06: behaviours of the TLA+ model StrategyLayer.tla (TLC counter-examples and TLC-simulated
behaviours, exported as the history variable `hist`) are replayed on the REAL jesse objects - a real Strategy
subclass, Broker, Sandbox driver, Order, Position, ClosedTrades, FuturesExchange - at object level:

    move d        one-minute candle at price B+d (store.candles.add_candle, position.current_price)
    fill i k      the i-th order of store.orders.storage is executed at its price (partial candle, Order.execute)
    stepA/flush*/stepB   ONE real strategy._execute() (user answers / edits / decision scripted from the history)
    flush*        store.orders.execute_pending_market_orders()
    term1..3      strategy._terminate() + execute_pending_market_orders()

The run is recorded with the recorder of strat_runs (same event vocabulary), so the same TLC monitors judge it;
after every action group a `proj` event carries the model's projected state (position, bag of active orders) next
to the real one - TLC compares them (clause model-divergence).  Nothing is judged here."""
import json
import numpy as np
from .. import session as S
from . import strat_runs as D

SYM = 'BTC-USDT'


def make_scripted(rec, script):
    from jesse.strategies import Strategy

    def rows(rs):
        return [(float(q), float(p)) for q, p in rs]

    class Scripted(Strategy):
        def _slot(self):
            sl = script.get('slots') or []
            i = script.get('ptr', 0)
            return sl[i] if 0 <= i < len(sl) else None

        def _apply(self):
            ed = self._slot()
            if not ed:
                return
            what, a, b = ed

            def put(name, rs):
                # every other edit is written IN PLACE into the ndarray jesse formatted earlier (when the shape allows it),
                # the rest re-assigns a list / an ndarray: all are legal ways to change a declaration
                cur = getattr(self, name)
                if not rs:                       # a side withdrawn by declaring []
                    setattr(self, name, [])
                    return
                if [(abs(q), p) for q, p in D.rows_of(cur)] == [(abs(float(q)), float(p)) for q, p in rs]:
                    return      # same rows as declared already (the model ignores signs and styles): not an edit, leave it untouched
                k = sum(int(q) + int(p) for q, p in rs)
                if self.position.qty < 0 and k % 2 == 1:      # on a short: rows written with the signed quantity (position.qty)
                    rs = [(-abs(q), p) for q, p in rs]
                if isinstance(cur, np.ndarray) and cur.shape == (len(rs), 2) and k % 2 == 0:
                    cur[:, :] = np.array(rows(rs), dtype=float)
                elif k % 3 == 0:
                    setattr(self, name, np.array(rows(rs), dtype=float))
                else:
                    setattr(self, name, rows(rs))
            if what == 'sl':
                put('stop_loss', a)
            elif what == 'tp':
                put('take_profit', a)
            elif what == 'both':
                put('stop_loss', a)
                put('take_profit', b)
            elif what == 'liq':
                self.liquidate()

        def should_long(self):
            d = script.get('dec')
            return bool(d) and d[0] == 'long'

        def should_short(self):
            d = script.get('dec')
            return bool(d) and d[0] == 'short'

        def _go(self, hook):
            d = script['dec']
            if hook == 'go_long':
                self.buy = rows(d[1])
            else:
                self.sell = rows(d[1])
            sl, tp = d[2]
            if sl:
                self.stop_loss = rows(sl)
            if tp:
                self.take_profit = rows(tp)
            rec.log(self, 'decl', hook)

        def go_long(self):
            self._go('go_long')

        def go_short(self):
            self._go('go_short')

        def should_cancel_entry(self):
            return bool(script.get('ans', False))

        def update_position(self):
            self._apply()
            rec.log(self, 'decl', 'update_position')

        def on_open_position(self, order):
            rec.log(self, 'hook', 'open', order)
            self._apply()
            rec.log(self, 'decl', 'on_open_position')

        def on_increased_position(self, order):
            rec.log(self, 'hook', 'inc', order)
            self._apply()
            rec.log(self, 'decl', 'on_increased_position')

        def on_reduced_position(self, order):
            rec.log(self, 'hook', 'red', order)
            self._apply()
            rec.log(self, 'decl', 'on_reduced_position')

        def on_close_position(self, order):
            rec.log(self, 'hook', 'close', order)
            rec.log(self, 'decl', 'on_close_position')

        def before(self):
            rec.log(self, 'step', None)

        def after(self):
            rec.log(self, 'after', None)

    return Scripted


class Session:
    def __init__(self, base, rec, script, balance=10000000.0):
        import jesse.helpers as jh
        from jesse.config import config as jc, set_config
        from jesse.routes import router
        from jesse.store import store
        from jesse.research.backtest import _format_config
        from jesse.modes import backtest_mode as bm
        S.reset_process_state()
        self.store, self.ex = store, S.FUT
        self.cls = make_scripted(rec, script)
        jc['app']['trading_mode'] = 'backtest'
        cfg = {'starting_balance': balance, 'fee': 0.0, 'type': 'futures', 'futures_leverage': 1,
               'futures_leverage_mode': 'cross', 'exchange': self.ex, 'warm_up_candles': 0}
        set_config(_format_config(cfg))
        router.initiate([{'exchange': self.ex, 'strategy': self.cls, 'symbol': SYM, 'timeframe': '1m'}], [])
        store.reset()
        store.candles.init_storage(5000)
        self.t = 0
        self.hi = self.lo = float(base)
        store.app.time = S.T0 + S.MIN
        store.candles.add_candle(np.array([S.T0, base, base, base, base, 1.0]), self.ex, SYM, '1m',
                                 with_execution=False, with_generation=False)
        bm._prepare_routes(None)
        S.reset_process_state_keep_config()
        self.pos = store.positions.storage['%s-%s' % (self.ex, SYM)]
        self.pos.current_price = float(base)
        self.strategy = router.routes[0].strategy
        self.key = '%s-%s' % (self.ex, SYM)

    def move(self, p):
        self.t += 1
        self.store.app.time = S.T0 + (self.t + 1) * S.MIN
        self.hi = self.lo = float(p)
        self.store.candles.add_candle(np.array([S.T0 + self.t * S.MIN, p, p, p, p, 1.0]), self.ex, SYM, '1m',
                                      with_execution=False, with_generation=False)
        self.pos.current_price = float(p)

    def touch(self, p):
        """the price reaches p inside the current minute (partial candle, as _simulate_price_change_effect does)"""
        c = self.store.candles.get_current_candle(self.ex, SYM, '1m').copy()
        self.hi, self.lo = max(self.hi, p), min(self.lo, p)
        c[2], c[3], c[4] = p, self.hi, self.lo
        self.store.candles.add_candle(c, self.ex, SYM, '1m', with_execution=False, with_generation=False)
        self.pos.current_price = float(p)

    def storage(self):
        return self.store.orders.storage[self.key]


def _groups(hist):
    """[(kind, [actions])]: move | fill | step (stepA, mid flushes, stepB?) | flush (run of flushes) | term (the rest)"""
    out, i = [], 0
    while i < len(hist):
        a = hist[i]['a'][0]
        if a in ('move', 'fill'):
            out.append((a, [hist[i]]))
            i += 1
        elif a == 'stepA':
            g = [hist[i]]
            i += 1
            while i < len(hist) and hist[i]['a'][0] == 'flush':
                g.append(hist[i])
                i += 1
            if i < len(hist) and hist[i]['a'][0] == 'stepB':
                g.append(hist[i])
                i += 1
            out.append(('step', g))
        elif a == 'flush':
            g = []
            while i < len(hist) and hist[i]['a'][0] == 'flush':
                g.append(hist[i])
                i += 1
            out.append(('flush', g))
        elif a == 'term1':
            out.append(('term', hist[i:]))
            i = len(hist)
        else:           # stepB without stepA cannot happen; term2/3 without term1 neither
            raise ValueError('unexpected action %r' % (hist[i]['a'],))
    return out


def _slot_of(h):
    return h['ed'][0] if h.get('ed') else None


def replay_item(item):
    """item: {'id', 'hist': [...], 'B': base price, 'src': label} -> {'id','hdr','ev'} (strat_runs vocabulary + proj)"""
    hist = item['hist']
    base = item['B']
    pseudo = {'nsym': 1, 'policy': {'tick': 1.0}, 'fee': [0, 1], 'expect_metrics': False,
              'config': {'exchange': S.FUT, 'starting_balance': 10000000.0}}
    rec = D.StratRec(pseudo)
    script = {}
    exc = None
    sess = Session(base, rec, script, balance=pseudo['config']['starting_balance'])
    rec.install()
    # the exec wrapper of StratRec advances the slot pointer: one slot per executed (active) order
    from jesse.models import Order
    inner_exec = Order.execute

    def execute(self_, *a, **k):
        if self_.is_active:
            script['ptr'] = script.get('ptr', -1) + 1
        return inner_exec(self_, *a, **k)
    Order.execute = execute

    def proj(model, compare):
        act = []
        for i, o in sorted(rec.orders.items()):
            if o.is_active:
                act.append([o.side, o.type, rec.Q(abs(o.qty)), rec.P(o.price), bool(o.reduce_only), o.submitted_via or 'none'])
        rec.emit('proj', s=1, cmp=bool(compare), mq=model['q'], iq=rec.Q(sess.pos.qty),
                 mact=[list(x) for x in model['act']], iact=act)

    try:
        for kind, g in _groups(hist):
            rec.fills_in_step = 0
            if kind == 'move':
                sess.move(base + g[0]['a'][1])
                proj(g[0]['post'], True)
            elif kind == 'fill':
                want = g[0]['a'][3]          # the model order's attributes; matched as a bag element, never by ordinal
                o = None
                for i, x in sorted(rec.orders.items()):
                    if x.is_active and [x.side, x.type, rec.Q(abs(x.qty)), rec.P(x.price), bool(x.reduce_only),
                                        x.submitted_via or 'none'] == list(want):
                        o = x
                        break
                if o is None:
                    rec.emit('proj', s=1, cmp=True, mq=g[0]['post']['q'], iq=-99999, mact=[list(want)], iact=[])   # no such order
                    break
                script.update(slots=[_slot_of(g[0])], ptr=-1)
                sess.touch(o.price)
                o.execute()
                proj(g[0]['post'], True)
            elif kind == 'step':
                a = g[0]['a']
                mids = [h for h in g[1:] if h['a'][0] == 'flush']
                last = g[-1]
                dec = None
                if last['a'][0] == 'stepB' and last['a'][1] != 'none':
                    dec = [last['a'][1], last['a'][2], last['a'][3]]
                # slots: update_position, then one per mid flush that executed an active order
                slots = [_slot_of(g[0])] + [_slot_of(h) for h in mids if not h['a'][2]]
                script.update(ans=a[1], dec=dec, slots=slots, ptr=0)
                sess.strategy._execute()
                sess.store.orders.update_active_orders(sess.ex, SYM)
                if last['a'][0] == 'stepB':
                    proj(last['post'], True)
            elif kind == 'flush':
                script.update(slots=[_slot_of(h) for h in g if not h['a'][2]], ptr=-1, dec=None)
                sess.store.orders.execute_pending_market_orders()
                sess.store.orders.update_active_orders(sess.ex, SYM)
                proj(g[-1]['post'], g[-1]['post'].get('nq', 0) == 0)
            elif kind == 'term':
                script.update(slots=[None] + [_slot_of(h) for h in g if h['a'][0] == 'flush' and not h['a'][2]], ptr=0, dec=None)
                sess.strategy._terminate()
                sess.store.orders.execute_pending_market_orders()
                proj(g[-1]['post'], bool(g[-1]['post'].get('done')))
    except Exception as e:          # a jesse exception (or the livelock guard) ends the trace
        exc = '%s: %s' % (type(e).__name__, str(e)[:200])
    finally:
        Order.execute = inner_exec
        rec.uninstall()
    out = {'exc': exc, 'result': None}
    try:
        out['final'] = S.capture_final()
    except Exception as e:
        out['final'] = {}
    ev = rec.finish(out)
    hdr = {'nsym': 1, 'spot': False, 'fee_n': 0, 'fee_d': 1, 'n': len(hist), 'pseed': 0, 'cseed': 0, 'pden': 1000,
           'exc': (exc or 'none')[:120], 'src': item.get('src', 'R')}
    return {'id': item['id'], 'hdr': hdr, 'ev': ev}
