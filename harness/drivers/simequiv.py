"""C12: model part (SimEquiv.tla) and the binding of that model to the real simulators.

A *scenario* is what SimEquiv's ghost `hist` holds: a list of {"k":"feed","raw":[{o,c,h,l}..]} (one chunk of raw
one-minute candles on the price lattice) and {"k":"decide","row":{cancel,close,entry:{dir,p,sl,tp}}} (one strategy
decision per trading-candle boundary).  `run_scenario` executes it on the real research.backtest with a strategy
scripted by the rows; TraceSimModel.tla re-executes it with the model's operators and TLC compares."""
import json, random, re
import numpy as np
from .. import tlc, session as S
from ..core import Machinery

BASE, SCALE = 100.0, 10.0
TFNAME = {1: '1m', 3: '3m', 5: '5m', 15: '15m'}
NOENTRY = {"dir": 0, "p": 0, "sl": 0, "tp": 0, "rel": False, "d": 0}
IDLE = {"cancel": False, "close": False, "entry": NOENTRY}


def P(x):
    return BASE + SCALE * x


def lat(price):
    q = (float(price) - BASE) / SCALE
    if q != int(q):
        raise Machinery("price %r is not on the lattice" % (price,))
    return int(q)


def scenario_strategy(rows):
    from jesse.strategies import Strategy

    class Scenario(Strategy):
        def _row(self):
            return rows[self.index] if self.index < len(rows) else IDLE

        def should_cancel_entry(self):
            return bool(self._row()['cancel'])

        def should_long(self):
            return self._row()['entry']['dir'] == 1

        def should_short(self):
            return self._row()['entry']['dir'] == -1

        def _go(self):
            e = self._row()['entry']
            self._rel = (e['dir'], e['d']) if e['rel'] else None
            if not e['rel']:
                self.stop_loss = 1, P(e['sl'])
                self.take_profit = 1, P(e['tp'])
            return 1, P(e['p'])

        def on_open_position(self, order):
            if getattr(self, '_rel', None):          # exits at a distance from the price the strategy sees in the hook
                d, dist = self._rel
                self.stop_loss = 1, self.price - d * dist * SCALE
                self.take_profit = 1, self.price + d * dist * SCALE

        def go_long(self):
            self.buy = self._go()

        def go_short(self):
            self.sell = self._go()

        def update_position(self):
            if self._row()['close']:
                self.liquidate()

    return Scenario


def run_scenario(item):
    """item: dict(hist, chunk, tf (minutes), mode 'step'|'fast').  Returns fills on the lattice, balance delta, exc."""
    from jesse.models import Order
    hist = item['hist']
    raws = [c for e in hist if e['k'] == 'feed' for c in e['raw']]
    rows = [e['row'] for e in hist if e['k'] == 'decide']
    n = len(raws)
    cand = np.array([[S.T0 + i * S.MIN, P(c['o']), P(c['c']), P(c['h']), P(c['l']), 1.0] for i, c in enumerate(raws)])
    fills = []
    rec = S.Recorder()

    def pre(self_, *a, **k):
        return self_.status

    def post(tok, r, e, self_, *a, **k):
        if tok == 'ACTIVE' and self_.status != tok:
            fills.append([self_.side, self_.type, lat(self_.price), int((self_.executed_at - S.T0) // S.MIN)])
    rec._wrap(Order, 'execute', pre=pre, post=post)
    start = 10000.0
    import signal
    from . import simruns as R
    old = signal.signal(signal.SIGALRM, R._on_alarm)
    signal.alarm(R.RUN_TIMEOUT)
    try:
        routes = [{'symbol': 'BTC-USDT', 'timeframe': TFNAME[item['tf']]}]
        data = [{'symbol': 'BTC-USDT', 'timeframe': TFNAME[item['chunk']]}] if item['chunk'] != item['tf'] else []
        out = S.run_backtest(None, S.futures_config(balance=start, fee=0.0, lev=1, mode='cross'), {'BTC-USDT': cand},
                             routes=routes, data_routes=data, fast=(item['mode'] == 'fast'),
                             strategy_cls=scenario_strategy(rows))
    except R.HarnessTimeout:
        out = {'exc': 'HarnessTimeout: the backtest did not finish', 'final': None}
        del fills[2000:]
    finally:
        signal.alarm(0)
        signal.signal(signal.SIGALRM, old)
        rec.uninstall()
    exc = out['exc'].split(':')[0] if out['exc'] else 'none'
    bal = 0
    fin = out.get('final') or {}
    if exc == 'none':
        w = list(fin['accts'].values())[0]['wallet']
        q = (w - start) / SCALE
        if q != int(q):
            raise Machinery("wallet %r not on the lattice" % (w,))
        bal = int(q)
    return {"fills": fills, "bal": bal, "exc": exc, "exc_text": (out['exc'] or '')[:160]}


# ------------------------------------------------------------------------------------------------ scenarios
def rand_candle(rng, K, prev, gap_p):
    o = prev if (prev and rng.random() >= gap_p) else rng.randint(1, K)
    if rng.random() < 0.25:
        return {"o": o, "c": o, "h": o, "l": o}
    c = max(1, min(K, o + rng.randint(-2, 2)))
    h = min(K, max(o, c) + rng.choice([0, 0, 1, 2]))
    l = max(1, min(o, c) - rng.choice([0, 0, 1, 2]))
    return {"o": o, "c": c, "h": h, "l": l}


def rand_row(rng, K, wide):
    r = {"cancel": rng.random() < 0.25, "close": rng.random() < 0.15, "entry": NOENTRY}
    if rng.random() < 0.6:
        d = rng.choice([1, -1])
        p = rng.randint(2, K - 1)
        if rng.random() < 0.35:   # exits placed in on_open_position relative to the price seen there
            r["entry"] = {"dir": d, "p": p, "sl": 0, "tp": 0, "rel": True, "d": rng.randint(1, K - 1) if not wide else K - 1}
            return r
        if wide:       # exits far away (inside the quantifier of C12 more often)
            lo, hi = 1, K
        else:
            lo, hi = rng.randint(1, p - 1), rng.randint(p + 1, K)
        r["entry"] = {"dir": d, "p": p, "sl": lo if d == 1 else hi, "tp": hi if d == 1 else lo, "rel": False, "d": 0}
    return r


def rand_scenario(rng, ragged=False):
    K = rng.choice([3, 4, 5, 6, 8])
    chunk, tf = rng.choice([(3, 3), (5, 5), (3, 15), (5, 15), (1, 1), (1, 3), (3, 3), (5, 5)])
    steps = rng.randint(2, 6 if tf < 15 else 3)
    gap_p = rng.choice([0.0, 0.2, 0.5])
    wide = rng.random() < 0.5
    hist, prev = [], 0
    n = tf * steps + (rng.randint(1, chunk - 1) if ragged and chunk > 1 else 0)
    mdone = 0
    while mdone < n:
        ln = min(chunk, n - mdone)
        raw = []
        for _ in range(ln):
            c = rand_candle(rng, K, prev, gap_p)
            raw.append(c)
            prev = c["c"]
        hist.append({"k": "feed", "raw": raw})
        mdone += ln
        if mdone % tf == 0 and ln == chunk:
            hist.append({"k": "decide", "row": rand_row(rng, K, wide)})
    return {"hist": hist, "chunk": chunk, "tf": tf, "K": K}


def run_scenarios(scens):
    jobs = []
    for sc in scens:
        jobs.append(dict(sc, mode='step'))
        jobs.append(dict(sc, mode='fast'))
    # tiny sessions: several per forked child (every run starts with session.reset_process_state())
    res = S.run_isolated(run_scenario, jobs, procs=16, chunk=25)
    for x in res:
        if isinstance(x, tuple) and x and x[0] == 'EXC':
            raise Machinery("scenario driver failed: %s" % x[1])
    return [(res[2 * j], res[2 * j + 1]) for j in range(len(scens))]


def scenario_trace(tid, sc, rn, rf):
    side = lambda r: {"fills": r["fills"], "bal": r["bal"], "exc": r["exc"]}
    return {"id": tid, "hdr": {"chunk": sc["chunk"], "tf": sc["tf"]}, "hist": sc["hist"], "norm": side(rn), "fast": side(rf)}


# ------------------------------------------------------------------------------------------------ M + R
def b_(x):
    return "TRUE" if x else "FALSE"


def se_cfg(K, chunk, tf, n, spacing, invs, variant, constraint=True, gaps=True, partial_raises=False, rel=False):
    innerfix, perminute = variant
    return ("SPECIFICATION Spec\nVIEW View\nCHECK_DEADLOCK FALSE\n"
            "CONSTANTS K = %d Chunk = %d TF = %d NMin = %d Gaps = %s Spacing = %s InnerFix = %s PerMinute = %s "
            "PartialChunkRaises = %s RelExits = %s\n" % (K, chunk, tf, n, b_(gaps), b_(spacing), b_(innerfix), b_(perminute),
                                                          b_(partial_raises), b_(rel))
            + ("CONSTRAINT InPre\n" if constraint else "") + "".join("INVARIANT %s\n" % i for i in invs))


F_ = lambda o, c, h, l: {"o": o, "c": c, "h": h, "l": l}
ABS = lambda d, p, sl, tp: {"cancel": False, "close": False, "entry": {"dir": d, "p": p, "sl": sl, "tp": tp, "rel": False, "d": 0}}
# an entry filled at the raw open of a gapped minute inside a chunk: the loop without the inner jump fix also fills the stop-loss
CANON_INNER = {"chunk": 3, "tf": 3, "K": 3, "hist": [
    {"k": "feed", "raw": [F_(1, 1, 1, 1)] * 3}, {"k": "decide", "row": ABS(1, 2, 1, 3)},
    {"k": "feed", "raw": [F_(1, 1, 1, 1), F_(1, 1, 1, 1), F_(2, 2, 2, 1)]}, {"k": "decide", "row": IDLE},
    {"k": "feed", "raw": [F_(2, 2, 2, 2)] * 3}]}
# stop-loss and take-profit both inside a red minute after the entry filled one minute earlier: the loop that does not
# re-sort the re-selected candidates takes the stop-loss first, the per-minute loop (and the normal one) the take-profit
CANON_PERMIN = {"chunk": 3, "tf": 3, "K": 3, "hist": [
    {"k": "feed", "raw": [F_(3, 3, 3, 3)] * 3}, {"k": "decide", "row": ABS(1, 2, 1, 3)},
    {"k": "feed", "raw": [F_(3, 2, 3, 2), F_(2, 1, 3, 1), F_(1, 1, 1, 1)]}, {"k": "decide", "row": IDLE}]}


def detect_variant():
    """which variant of the fast loop does the tree contain?  (an input of the model, never a verdict: TLC still judges
    every replayed scenario against the model instantiated with this variant)"""
    (an, af), (bn, bf) = run_scenarios([CANON_INNER, CANON_PERMIN])
    same = lambda n, f: n["exc"] == "none" and f["exc"] == "none" and n["fills"] == f["fills"]
    return (same(an, af), same(bn, bf))


def scenarios_from(r, tag, chunk, tf, K, cap=None, rng=None):
    out = []
    for t in tlc.tagged(r, tag):
        hist = json.loads(t[1])
        if sum(len(e["raw"]) for e in hist if e["k"] == "feed") < 2:
            continue                  # research.backtest() itself needs two candles to validate the 1m spacing
        out.append({"hist": hist, "chunk": chunk, "tf": tf, "K": K})
    if cap and len(out) > cap:
        out = rng.sample(out, cap)
    return out


def model_cfg_file(ctx, variant):
    path = ctx.sub("cfg") + "/TraceSimModel-%s-%s.cfg" % (b_(variant[0]), b_(variant[1]))
    with open(path, "w") as f:
        f.write("SPECIFICATION Spec\nCONSTANT InnerFix = %s\nCONSTANT PerMinute = %s\nCONSTANT PartialChunkRaises = FALSE\n"
                "INVARIANT Report\nCHECK_DEADLOCK FALSE\n" % (b_(variant[0]), b_(variant[1])))
    return path


def bind(ctx, scens, label, stats, variant):
    """run the scenarios on both real simulators and let TLC compare with the model's prediction"""
    if not scens:
        return []
    res = run_scenarios(scens)
    traces = [scenario_trace(j + 1, sc, rn, rf) for j, (sc, (rn, rf)) in enumerate(zip(scens, res))]
    verdicts, results = tlc.validate_traces("TraceSimModel", model_cfg_file(ctx, variant), traces, ctx.sub("bind-" + label), parts=16,
                                            timeout=1500)
    for r in results:
        ctx.coverage["binding_states_checked_by_tlc"] = ctx.coverage.get("binding_states_checked_by_tlc", 0) + r.generated
    for tid, (pre, agree, v) in sorted(verdicts.items()):
        sc, (rn, rf) = scens[tid - 1], res[tid - 1]
        stats['scenarios'] += 1
        stats['inside_quantifier'] += 1 if pre == "ok" else 0
        stats['real_runs'] += 2
        stats['fills'] += len(rn['fills'])
        if rn['fills'] != rf['fills'] or rn['exc'] != rf['exc']:
            stats['code_differs'] += 1
        if agree == 0:
            stats['model_says_simulators_differ'] += 1
        if v.startswith("c12:"):
            # real normal vs real fast differ on a scenario that TLC classified as inside antecedent + quantifier
            stats['c12'] += 1
            ctx.violation("scenario:" + v[4:], "scenario (%s, lattice %d, chunk %d, trading %dm) inside the precondition: the real "
                          "simulators differ: %s; normal %s fast %s" % (label, sc["K"], sc["chunk"], sc["tf"], v, rn, rf),
                          {"scenario": sc})
        elif v != "ok":
            stats['mismatch_in' if pre == "ok" else 'mismatch_out'].append({"label": label, "verdict": v, "scenario": sc,
                                                                             "normal": rn, "fast": rf})
    return res


def new_stats():
    return dict(scenarios=0, inside_quantifier=0, real_runs=0, fills=0, model_says_simulators_differ=0,
                code_differs=0, c12=0, mismatch_in=[], mismatch_out=[])


def model_part(ctx):
    """M: TLC explores the lock-step product.  Returns the variant of the fast loop found in the tree."""
    from . import simruns as R
    R.warm_parent()
    variant = detect_variant()
    ctx.coverage["fast_loop_variant"] = {"inner_minutes_jump_fixed": variant[0], "candidates_per_minute": variant[1]}
    main_inv = "Equiv" if variant[0] else "EquivKnown"
    jobs, labels = [], []
    # (K, chunk, trading tf, minutes, relative exits)
    q = [(3, 2, 2, 4, True), (3, 3, 3, 6, False), (4, 2, 2, 4, False), (3, 2, 4, 8, False), (3, 1, 3, 6, True),
         (4, 1, 1, 3, False), (3, 2, 2, 5, False), (3, 3, 3, 5, False)]
    t = q + [(3, 2, 2, 6, True), (4, 2, 2, 6, False), (4, 2, 2, 4, True), (3, 3, 3, 6, True), (5, 2, 2, 4, False), (4, 2, 4, 8, False),
             (4, 1, 3, 6, True), (5, 1, 1, 3, True), (3, 3, 3, 9, False)]
    for (K, ch, tf, n, rel) in ctx.pick(q, t):
        jobs.append(dict(module="SimEquiv", cfg_text=se_cfg(K, ch, tf, n, True, [main_inv, "NoErr"], variant, rel=rel),
                         workers=4, coverage=True, timeout=3000))
        labels.append("SimEquiv K=%d chunk=%d trading=%d minutes=%d rel-exits=%s invariant=%s" % (K, ch, tf, n, rel, main_inv))
    if variant == (True, True):
        # the repaired loop is the normal loop minute by minute: equivalence holds with the fill-count antecedent alone and
        # even without any antecedent (stronger than C12; checked because it is what the code now promises)
        for (K, ch, tf, n, rel) in ctx.pick([(3, 3, 3, 6, False)], [(3, 3, 3, 6, True), (4, 2, 2, 4, False)]):
            jobs.append(dict(module="SimEquiv", cfg_text=se_cfg(K, ch, tf, n, False, ["EquivAlways", "NoErr"], variant, rel=rel,
                                                                constraint=False), workers=4, coverage=True, timeout=3000))
            labels.append("SimEquiv K=%d chunk=%d trading=%d minutes=%d rel-exits=%s invariant=EquivAlways (no antecedent)" % (K, ch, tf, n, rel))
    res = tlc.run_parallel(jobs, max_procs=4)
    for r, lab in zip(res, labels):
        ctx.add_tlc(r, lab)
        if r.violation:
            raise Machinery("%s violates %s - a model-level counter-example inside the quantifier that is not of a known "
                            "class; replay its hist on the code:\n%s" % (lab, r.violation["name"], r.violation["trace"][-4000:]))
        for a in ("Feed", "Compare", "DecideStep"):
            if r.coverage.get(a, (0, 0))[1] == 0:
                raise Machinery("action %s never taken in %s" % (a, lab))
    # probes: the antecedent of Equiv is reachable with resting fills, closed trades, market fills and gapped chunks
    probes = ["ProbeRestingFill", "ProbeClosedTrade", "ProbeMarketFill", "ProbeExitAfterGap"]
    seeded = [("former inner loop (no jump fix inside the chunk, chunk-level candidate list)",
               se_cfg(3, 2, 2, 4, True, ["Equiv"], (False, False), rel=True), "Equiv"),
              ("trailing partial chunk treated as a full one",
               se_cfg(3, 3, 3, 5, True, ["Equiv"], variant, partial_raises=True), "Equiv")]
    pres = tlc.run_parallel([dict(module="SimEquiv", cfg_text=se_cfg(3, 2, 2, 6, True, [p], variant), workers=2, timeout=900)
                             for p in probes] +
                            [dict(module="SimEquiv", cfg_text=c, workers=2, timeout=900) for _, c, _ in seeded], max_procs=6)
    for p, r in zip(probes, pres):
        if not r.violation or r.violation["name"] != p:
            raise Machinery("non-vacuity probe %s is not reachable: Equiv would be vacuous" % p)
    for (what, _, inv), r in zip(seeded, pres[len(probes):]):
        if not r.violation or r.violation["name"] != inv:
            raise Machinery("seeded model fault not reported by %s: %s" % (inv, what))
    ctx.coverage["antecedent_reachable_with"] = probes
    ctx.coverage["seeded_model_faults_reported"] = [w for w, _, _ in seeded]
    return variant


def binding_part(ctx, variant):
    """R + T for the model: TLC-generated and random scenarios replayed on the real simulators.  Returns the list of
    scenarios inside the quantifier where TLC rejects the model's description of a simulator (caller decides)."""
    rng = random.Random(ctx.seed + 12)
    stats = new_stats()
    cap = ctx.pick(300, 2500)
    exp = [(3, 3, 3, 6, False), (3, 1, 3, 6, True)] if ctx.quick else \
          [(3, 3, 3, 6, True), (3, 1, 3, 6, True), (4, 1, 3, 6, False), (4, 1, 1, 4, True), (3, 3, 3, 9, False)]
    jobs = [dict(module="SimEquiv", cfg_text=se_cfg(K, ch, tf, n, False, ["Export", "NoErr"], variant, constraint=False, rel=rel),
                 workers=4, timeout=3000) for (K, ch, tf, n, rel) in exp]
    # witnesses of the FORMER loop's divergences (inside the quantifier / fill-count antecedent only): regression scenarios -
    # replayed on the code and judged against the model of the loop as it is now
    old = (False, False)
    jobs.append(dict(module="SimEquiv", cfg_text=se_cfg(3, 3, 3, 6, True, ["Diverge", "NoErr"], old, rel=True), workers=4, timeout=3000))
    jobs.append(dict(module="SimEquiv", cfg_text=se_cfg(3, 3, 3, 6, False, ["Diverge", "NoErr"], old), workers=4, timeout=3000))
    # and of the loop as it is now (none expected when repaired)
    jobs.append(dict(module="SimEquiv", cfg_text=se_cfg(3, 3, 3, 6, True, ["Diverge", "NoErr"], variant, rel=True), workers=4, timeout=3000))
    eres = tlc.run_parallel(jobs, max_procs=4)
    n_exp = 0
    for (K, ch, tf, n, rel), r in zip(exp, eres):
        if r.violation:
            raise Machinery("export run violated %s" % r.violation["name"])
        ctx.add_tlc(r, "SimEquiv export K=%d chunk=%d trading=%d minutes=%d rel-exits=%s (no antecedent)" % (K, ch, tf, n, rel))
        sc = scenarios_from(r, "SCEN", ch, tf, K, cap, rng)
        n_exp += len(sc)
        bind(ctx, sc, "export-%d-%d-%d-%d" % (K, ch, tf, n), stats, variant)
    old_in = scenarios_from(eres[len(exp)], "DIVERGE", 3, 3, 3, cap, rng)
    old_out = scenarios_from(eres[len(exp) + 1], "DIVERGE", 3, 3, 3, cap, rng)
    now_in = scenarios_from(eres[len(exp) + 2], "DIVERGE", 3, 3, 3, cap, rng)
    if not old_in or not old_out:
        raise Machinery("the former inner loop shows no divergence in the model (%d / %d): the regression scenarios are gone"
                        % (len(old_in), len(old_out)))
    if variant[0] and now_in:
        raise Machinery("the model of the repaired loop still diverges inside the quantifier (%d states)" % len(now_in))
    before = (stats['c12'], stats['code_differs'])
    bind(ctx, old_in, "former-divergence-inside-quantifier", stats, variant)
    bind(ctx, old_out, "former-divergence-fill-count-only", stats, variant)
    bind(ctx, now_in, "divergence-inside-quantifier", stats, variant)
    reg = {"scenarios": len(old_in) + len(old_out) + len(now_in), "c12_violations_on_code": stats['c12'] - before[0],
           "code_still_differs": stats['code_differs'] - before[1]}
    # T (model binding): random scenarios, larger lattices and real 1m / 3m / 5m / 15m timeframes, ragged tails
    n_rand = ctx.pick(250, 6000)
    rs = [rand_scenario(rng, ragged=(j % 12 == 0)) for j in range(n_rand)]
    for off in range(0, n_rand, 1500):
        bind(ctx, rs[off:off + 1500], "random-%d" % off, stats, variant)
    ctx.coverage.update({
        "model_scenarios_replayed_on_code": stats['scenarios'], "of_which_inside_the_quantifier": stats['inside_quantifier'],
        "model_replay_real_runs": stats['real_runs'],
        "model_replay_fills": stats['fills'], "tlc_exported_scenarios": n_exp,
        "model_says_simulators_differ": stats['model_says_simulators_differ'],
        "scenarios_where_the_real_simulators_differ": stats['code_differs'],
        "former_divergence_witnesses_replayed": reg,
        "model_binding_mismatches_inside_the_quantifier": len(stats['mismatch_in']),
        "model_binding_mismatches_outside_the_quantifier": len(stats['mismatch_out']),
        "former_divergence_sample": old_in[0]["hist"],
    })
    if stats['mismatch_out']:
        ctx.notes.append("SimCore mispredicts a simulator on %d scenario(s) OUTSIDE the precondition of C12 (first: %s) - the "
                         "model is out of date there; not a C12 verdict" % (len(stats['mismatch_out']),
                                                                          json.dumps(stats['mismatch_out'][0])[:600]))
    ctx.notes.append("TLC lists %d + %d chunk-end states (lattice 3, chunk 3) in which the FORMER fast loop differs from the normal "
                     "simulator inside the quantifier / with the fill-count antecedent only; replayed on the tree: the real "
                     "simulators still differ on %d of them" % (len(old_in), len(old_out), reg["code_still_differs"]))
    return stats['mismatch_in']


def replay_scenario(ctx, p):
    from . import simruns as R
    R.warm_parent()
    variant = detect_variant()
    stats = new_stats()
    res = bind(ctx, [p["scenario"]], "replay", stats, variant)
    print("replay: normal %s fast %s; model mismatches %s" % (res[0][0], res[0][1], stats['mismatch_in'] + stats['mismatch_out']))
