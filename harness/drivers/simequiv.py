"""C12: model part (SimEquiv.tla) and the binding of that model to the real simulators.

A *scenario* is what SimEquiv's ghost `hist` holds: a list of {"k":"feed","raw":[{o,c,h,l}..]} (one chunk of raw
one-minute candles on the price lattice) and {"k":"decide","row":{cancel,close,entry:{dir,p,sl,tp}}} (one strategy
decision per trading-candle boundary).  `run_scenario` executes it on the real research.backtest with a strategy
scripted by the rows; TraceSimModel.tla re-executes it with the model's operators and TLC compares."""
import json, random, re
import numpy as np
from .. import tlc, session as S
from ..core import Machinery

BASE, SCALE = 100.0, 10.0
TFNAME = {1: '1m', 3: '3m', 5: '5m', 15: '15m'}
NOENTRY = {"dir": 0, "p": 0, "sl": 0, "tp": 0, "rel": False, "d": 0}
IDLE = {"cancel": False, "close": False, "entry": NOENTRY}


def P(x):
    return BASE + SCALE * x


def lat(price):
    q = (float(price) - BASE) / SCALE
    if q != int(q):
        raise Machinery("price %r is not on the lattice" % (price,))
    return int(q)


def scenario_strategy(rows):
    from jesse.strategies import Strategy

    class Scenario(Strategy):
        def _row(self):
            return rows[self.index] if self.index < len(rows) else IDLE

        def should_cancel_entry(self):
            return bool(self._row()['cancel'])

        def should_long(self):
            return self._row()['entry']['dir'] == 1

        def should_short(self):
            return self._row()['entry']['dir'] == -1

        def _go(self):
            e = self._row()['entry']
            self._rel = (e['dir'], e['d']) if e['rel'] else None
            if not e['rel']:
                self.stop_loss = 1, P(e['sl'])
                self.take_profit = 1, P(e['tp'])
            return 1, P(e['p'])

        def on_open_position(self, order):
            if getattr(self, '_rel', None):          # exits at a distance from the price the strategy sees in the hook
                d, dist = self._rel
                self.stop_loss = 1, self.price - d * dist * SCALE
                self.take_profit = 1, self.price + d * dist * SCALE

        def go_long(self):
            self.buy = self._go()

        def go_short(self):
            self.sell = self._go()

        def update_position(self):
            if self._row()['close']:
                self.liquidate()

    return Scenario


def run_scenario(item):
    """item: dict(hist, chunk, tf (minutes), mode 'step'|'fast').  Returns fills on the lattice, balance delta, exc."""
    from jesse.models import Order
    hist = item['hist']
    raws = [c for e in hist if e['k'] == 'feed' for c in e['raw']]
    rows = [e['row'] for e in hist if e['k'] == 'decide']
    n = len(raws)
    cand = np.array([[S.T0 + i * S.MIN, P(c['o']), P(c['c']), P(c['h']), P(c['l']), 1.0] for i, c in enumerate(raws)])
    fills = []
    rec = S.Recorder()

    def pre(self_, *a, **k):
        return self_.status

    def post(tok, r, e, self_, *a, **k):
        if tok == 'ACTIVE' and self_.status != tok:
            fills.append([self_.side, self_.type, lat(self_.price), int((self_.executed_at - S.T0) // S.MIN)])
    rec._wrap(Order, 'execute', pre=pre, post=post)
    start = 10000.0
    import signal
    from . import simruns as R
    old = signal.signal(signal.SIGALRM, R._on_alarm)
    signal.alarm(R.RUN_TIMEOUT)
    try:
        routes = [{'symbol': 'BTC-USDT', 'timeframe': TFNAME[item['tf']]}]
        data = [{'symbol': 'BTC-USDT', 'timeframe': TFNAME[item['chunk']]}] if item['chunk'] != item['tf'] else []
        out = S.run_backtest(None, S.futures_config(balance=start, fee=0.0, lev=1, mode='cross'), {'BTC-USDT': cand},
                             routes=routes, data_routes=data, fast=(item['mode'] == 'fast'),
                             strategy_cls=scenario_strategy(rows))
    except R.HarnessTimeout:
        out = {'exc': 'HarnessTimeout: the backtest did not finish', 'final': None}
        del fills[2000:]
    finally:
        signal.alarm(0)
        signal.signal(signal.SIGALRM, old)
        rec.uninstall()
    exc = out['exc'].split(':')[0] if out['exc'] else 'none'
    bal = 0
    fin = out.get('final') or {}
    if exc == 'none':
        w = list(fin['accts'].values())[0]['wallet']
        q = (w - start) / SCALE
        if q != int(q):
            raise Machinery("wallet %r not on the lattice" % (w,))
        bal = int(q)
    return {"fills": fills, "bal": bal, "exc": exc, "exc_text": (out['exc'] or '')[:160]}


# ------------------------------------------------------------------------------------------------ scenarios
def rand_candle(rng, K, prev, gap_p):
    o = prev if (prev and rng.random() >= gap_p) else rng.randint(1, K)
    if rng.random() < 0.25:
        return {"o": o, "c": o, "h": o, "l": o}
    c = max(1, min(K, o + rng.randint(-2, 2)))
    h = min(K, max(o, c) + rng.choice([0, 0, 1, 2]))
    l = max(1, min(o, c) - rng.choice([0, 0, 1, 2]))
    return {"o": o, "c": c, "h": h, "l": l}


def rand_row(rng, K, wide):
    r = {"cancel": rng.random() < 0.25, "close": rng.random() < 0.15, "entry": NOENTRY}
    if rng.random() < 0.6:
        d = rng.choice([1, -1])
        p = rng.randint(2, K - 1)
        if rng.random() < 0.35:   # exits placed in on_open_position relative to the price seen there
            r["entry"] = {"dir": d, "p": p, "sl": 0, "tp": 0, "rel": True, "d": rng.randint(1, K - 1) if not wide else K - 1}
            return r
        if wide:       # exits far away (inside the quantifier of C12 more often)
            lo, hi = 1, K
        else:
            lo, hi = rng.randint(1, p - 1), rng.randint(p + 1, K)
        r["entry"] = {"dir": d, "p": p, "sl": lo if d == 1 else hi, "tp": hi if d == 1 else lo, "rel": False, "d": 0}
    return r


def rand_scenario(rng, ragged=False):
    K = rng.choice([3, 4, 5, 6, 8])
    chunk, tf = rng.choice([(3, 3), (5, 5), (3, 15), (5, 15), (1, 1), (1, 3), (3, 3), (5, 5)])
    steps = rng.randint(2, 6 if tf < 15 else 3)
    gap_p = rng.choice([0.0, 0.2, 0.5])
    wide = rng.random() < 0.5
    hist, prev = [], 0
    n = tf * steps + (rng.randint(1, chunk - 1) if ragged and chunk > 1 else 0)
    mdone = 0
    while mdone < n:
        ln = min(chunk, n - mdone)
        raw = []
        for _ in range(ln):
            c = rand_candle(rng, K, prev, gap_p)
            raw.append(c)
            prev = c["c"]
        hist.append({"k": "feed", "raw": raw})
        mdone += ln
        if mdone % tf == 0 and ln == chunk:
            hist.append({"k": "decide", "row": rand_row(rng, K, wide)})
    return {"hist": hist, "chunk": chunk, "tf": tf, "K": K}


def run_scenarios(scens):
    jobs = []
    for sc in scens:
        jobs.append(dict(sc, mode='step'))
        jobs.append(dict(sc, mode='fast'))
    # tiny sessions: several per forked child (every run starts with session.reset_process_state())
    res = S.run_isolated(run_scenario, jobs, procs=16, chunk=25)
    for x in res:
        if isinstance(x, tuple) and x and x[0] == 'EXC':
            raise Machinery("scenario driver failed: %s" % x[1])
    return [(res[2 * j], res[2 * j + 1]) for j in range(len(scens))]


def scenario_trace(tid, sc, rn, rf):
    side = lambda r: {"fills": r["fills"], "bal": r["bal"], "exc": r["exc"]}
    return {"id": tid, "hdr": {"chunk": sc["chunk"], "tf": sc["tf"]}, "hist": sc["hist"], "norm": side(rn), "fast": side(rf)}


# ------------------------------------------------------------------------------------------------ M + R
def se_cfg(K, chunk, tf, n, spacing, invs, constraint=True, gaps=True, innerfix=False, partial_raises=False, rel=False):
    b = lambda x: "TRUE" if x else "FALSE"
    return ("SPECIFICATION Spec\nVIEW View\nCHECK_DEADLOCK FALSE\n"
            "CONSTANTS K = %d Chunk = %d TF = %d NMin = %d Gaps = %s Spacing = %s InnerFix = %s PartialChunkRaises = %s "
            "RelExits = %s\n" % (K, chunk, tf, n, b(gaps), b(spacing), b(innerfix), b(partial_raises), b(rel))
            + ("CONSTRAINT InPre\n" if constraint else "") + "".join("INVARIANT %s\n" % i for i in invs))


F_ = lambda o, c, h, l: {"o": o, "c": c, "h": h, "l": l}
CANONICAL = {"chunk": 3, "tf": 3, "K": 3, "hist": [
    {"k": "feed", "raw": [F_(1, 1, 1, 1)] * 3},
    {"k": "decide", "row": {"cancel": False, "close": False, "entry": {"dir": 1, "p": 2, "sl": 1, "tp": 3, "rel": False, "d": 0}}},
    {"k": "feed", "raw": [F_(1, 1, 1, 1), F_(1, 1, 1, 1), F_(2, 2, 2, 1)]}, {"k": "decide", "row": IDLE},
    {"k": "feed", "raw": [F_(2, 2, 2, 2)] * 3}]}


def detect_inner_fix():
    """which variant of the fast loop does the tree contain?  (an input of the model, not a verdict): on the canonical
    gapped-inner-minute scenario the unrepaired loop also fills the stop-loss, the repaired one does what the normal one does"""
    (rn, rf), = run_scenarios([CANONICAL])
    return rn["exc"] == "none" and rf["exc"] == "none" and rn["fills"] == rf["fills"]


def scenarios_from(r, tag, chunk, tf, K, cap=None, rng=None):
    out = []
    for t in tlc.tagged(r, tag):
        hist = json.loads(t[1])
        if sum(len(e["raw"]) for e in hist if e["k"] == "feed") < 2:
            continue                  # research.backtest() itself needs two candles to validate the 1m spacing
        out.append({"hist": hist, "chunk": chunk, "tf": tf, "K": K})
    if cap and len(out) > cap:
        out = rng.sample(out, cap)
    return out


def bind(ctx, scens, label, stats, fixed):
    """run the scenarios on both real simulators and let TLC compare with the model's prediction"""
    if not scens:
        return []
    res = run_scenarios(scens)
    traces = [scenario_trace(j + 1, sc, rn, rf) for j, (sc, (rn, rf)) in enumerate(zip(scens, res))]
    verdicts, results = tlc.validate_traces("TraceSimModel", "TraceSimModel_fixed.cfg" if fixed else "TraceSimModel.cfg", traces,
                                            ctx.sub("bind-" + label), parts=16, timeout=1500)
    for r in results:
        ctx.coverage["binding_states_checked_by_tlc"] = ctx.coverage.get("binding_states_checked_by_tlc", 0) + r.generated
    for tid, (pre, agree, v) in sorted(verdicts.items()):
        sc, (rn, rf) = scens[tid - 1], res[tid - 1]
        stats['scenarios'] += 1
        stats['inside_quantifier'] += 1 if pre == "ok" else 0
        stats['real_runs'] += 2
        stats['fills'] += len(rn['fills'])
        if agree == 0:
            stats['model_says_simulators_differ'] += 1
            if rn['fills'] != rf['fills'] or rn['exc'] != rf['exc']:
                stats['and_the_code_differs_too'] += 1
        if v.startswith("c12:"):
            # real normal vs real fast differ on a scenario that TLC classified as inside antecedent + quantifier
            stats['c12'] += 1
            ctx.violation("scenario:" + v[4:], "scenario (%s, lattice %d, chunk %d, trading %dm) inside the precondition: the real "
                          "simulators differ: %s; normal %s fast %s" % (label, sc["K"], sc["chunk"], sc["tf"], v, rn, rf),
                          {"scenario": sc})
        elif v != "ok":
            stats['mismatch_in' if pre == "ok" else 'mismatch_out'].append({"label": label, "verdict": v, "scenario": sc,
                                                                             "normal": rn, "fast": rf})
    return res


def new_stats():
    return dict(scenarios=0, inside_quantifier=0, real_runs=0, fills=0, model_says_simulators_differ=0,
                and_the_code_differs_too=0, c12=0, mismatch_in=[], mismatch_out=[])


def model_part(ctx):
    """M: TLC explores the lock-step product.  Returns whether the tree contains the repaired fast loop."""
    from . import simruns as R
    R.warm_parent()
    fixed = detect_inner_fix()
    ctx.coverage["fast_loop_variant"] = "inner minutes jump-fixed (repaired)" if fixed else \
        "inner minutes widened only, open kept (defect inner-gap-fill present)"
    main_inv = "Equiv" if fixed else "EquivKnown"
    jobs, labels = [], []
    # (K, chunk, trading tf, minutes, relative exits)
    q = [(3, 2, 2, 4, True), (3, 3, 3, 6, False), (4, 2, 2, 4, False), (3, 2, 4, 8, False), (3, 1, 3, 6, True),
         (4, 1, 1, 3, False), (3, 2, 2, 5, False), (3, 3, 3, 5, False)]
    t = q + [(3, 2, 2, 6, True), (4, 2, 2, 6, False), (4, 2, 2, 4, True), (3, 3, 3, 6, True), (5, 2, 2, 4, False), (4, 2, 4, 8, False),
             (4, 1, 3, 6, True), (5, 1, 1, 4, True), (3, 3, 3, 9, False)]
    for (K, ch, tf, n, rel) in ctx.pick(q, t):
        jobs.append(dict(module="SimEquiv", cfg_text=se_cfg(K, ch, tf, n, True, [main_inv, "NoErr"], innerfix=fixed, rel=rel),
                         workers=4, coverage=True, timeout=3000))
        labels.append("SimEquiv K=%d chunk=%d trading=%d minutes=%d rel-exits=%s invariant=%s" % (K, ch, tf, n, rel, main_inv))
    res = tlc.run_parallel(jobs, max_procs=4)
    for r, lab in zip(res, labels):
        ctx.add_tlc(r, lab)
        if r.violation:
            raise Machinery("%s violates %s - a model-level counter-example inside the quantifier that is not of the known "
                            "class; replay its hist on the code:\n%s" % (lab, r.violation["name"], r.violation["trace"][-4000:]))
        for a in ("Feed", "Compare", "DecideStep"):
            if r.coverage.get(a, (0, 0))[1] == 0:
                raise Machinery("action %s never taken in %s" % (a, lab))
    # probes: the antecedent of Equiv is reachable with resting fills, closed trades, market fills and gapped chunks
    probes = ["ProbeRestingFill", "ProbeClosedTrade", "ProbeMarketFill", "ProbeExitAfterGap"]
    pres = tlc.run_parallel([dict(module="SimEquiv", cfg_text=se_cfg(3, 2, 2, 6, True, [p], innerfix=fixed), workers=2, timeout=900)
                             for p in probes], max_procs=4)
    for p, r in zip(probes, pres):
        if not r.violation or r.violation["name"] != p:
            raise Machinery("non-vacuity probe %s is not reachable: Equiv would be vacuous" % p)
    ctx.coverage["antecedent_reachable_with"] = probes
    # the repaired variant of the loop satisfies Equiv itself (no exclusion) - evidence for the proposed fix
    if not fixed:
        n = ctx.pick(4, 6)
        r = tlc.run("SimEquiv", cfg_text=se_cfg(3, 2, 2, n, True, ["Equiv", "NoErr"], innerfix=True, rel=True), workers=4, timeout=1800)
        ctx.add_tlc(r, "SimEquiv K=3 chunk=2 trading=2 minutes=%d rel-exits=True invariant=Equiv, REPAIRED loop (InnerFix)" % n)
        if r.violation:
            raise Machinery("the proposed repair (InnerFix) does not satisfy Equiv in the model: %s" % r.violation["trace"][-3000:])
    return fixed


def binding_part(ctx, fixed):
    """R + T for the model: TLC-generated and random scenarios replayed on the real simulators.  Returns the list of
    scenarios inside the quantifier where TLC rejects the model's description of a simulator (caller decides)."""
    rng = random.Random(ctx.seed + 12)
    stats = new_stats()
    cap = ctx.pick(500, 2500)
    exp = [(3, 3, 3, 6, False), (3, 1, 3, 6, True)] if ctx.quick else \
          [(3, 3, 3, 6, True), (3, 1, 3, 6, True), (4, 1, 3, 6, False), (4, 1, 1, 4, True), (3, 3, 3, 9, False)]
    eres = tlc.run_parallel([dict(module="SimEquiv", cfg_text=se_cfg(K, ch, tf, n, False, ["Export", "NoErr"], constraint=False,
                                                                     innerfix=fixed, rel=rel),
                                  workers=4, timeout=3000) for (K, ch, tf, n, rel) in exp], max_procs=4)
    n_exp = 0
    for (K, ch, tf, n, rel), r in zip(exp, eres):
        if r.violation:
            raise Machinery("export run violated %s" % r.violation["name"])
        ctx.add_tlc(r, "SimEquiv export K=%d chunk=%d trading=%d minutes=%d rel-exits=%s (no antecedent)" % (K, ch, tf, n, rel))
        sc = scenarios_from(r, "SCEN", ch, tf, K, cap, rng)
        n_exp += len(sc)
        bind(ctx, sc, "export-%d-%d-%d-%d" % (K, ch, tf, n), stats, fixed)
    # (a) inside antecedent + quantifier: every distinct chunk-end state where the model's simulators differ (none for the
    #     repaired loop; the known class inner-gap-fill otherwise) - each witness is replayed, the real simulators must differ
    # (b) with the statement's antecedent alone (<= 1 resting fill per trading candle, no spacing) they differ in more ways
    # (c) the seeded former defect (trailing partial chunk raises)
    dres = tlc.run_parallel([
        dict(module="SimEquiv", cfg_text=se_cfg(3, 3, 3, 6, True, ["Diverge", "NoErr"], innerfix=fixed, rel=True), workers=4, timeout=3000),
        dict(module="SimEquiv", cfg_text=se_cfg(3, 3, 3, 6, False, ["Diverge", "NoErr"], innerfix=fixed), workers=4, timeout=3000),
        dict(module="SimEquiv", cfg_text=se_cfg(3, 3, 3, 5, True, ["Diverge", "NoErr"], innerfix=fixed, partial_raises=True), workers=4,
             timeout=3000)], max_procs=3)
    isc = scenarios_from(dres[0], "DIVERGE", 3, 3, 3, cap, rng)
    dsc = scenarios_from(dres[1], "DIVERGE", 3, 3, 3, cap, rng)
    rsc = scenarios_from(dres[2], "DIVERGE", 3, 3, 3)
    if fixed and isc:
        raise Machinery("the repaired model still diverges inside the quantifier (%d states)" % len(isc))
    if not fixed and not isc:
        raise Machinery("the unrepaired model shows no divergence inside the quantifier: the known class would be vacuous")
    if not dsc and not fixed:
        raise Machinery("no divergence without the spacing quantifier: the antecedent would be irrelevant (model too weak)")
    if not rsc:
        raise Machinery("seeded partial-chunk defect not visible in the model")
    before = stats['c12']
    bind(ctx, isc, "diverge-inside-quantifier", stats, fixed)
    n_in_conf = stats['c12'] - before
    before = stats['and_the_code_differs_too']
    bind(ctx, dsc, "diverge-fills-only", stats, fixed)
    n_div_conf = stats['and_the_code_differs_too'] - before
    # T (model binding): random scenarios, larger lattices and real 1m / 3m / 5m / 15m timeframes, ragged tails
    n_rand = ctx.pick(400, 6000)
    rs = [rand_scenario(rng, ragged=(j % 12 == 0)) for j in range(n_rand)]
    for off in range(0, n_rand, 1500):
        bind(ctx, rs[off:off + 1500], "random-%d" % off, stats, fixed)
    ctx.coverage.update({
        "model_scenarios_replayed_on_code": stats['scenarios'], "of_which_inside_the_quantifier": stats['inside_quantifier'],
        "model_replay_real_runs": stats['real_runs'],
        "model_replay_fills": stats['fills'], "tlc_exported_scenarios": n_exp,
        "model_says_simulators_differ": stats['model_says_simulators_differ'],
        "of_which_the_code_differs_too": stats['and_the_code_differs_too'],
        "divergences_inside_the_quantifier": {"found_by_tlc": len(isc), "reproduced_on_code": n_in_conf},
        "divergences_with_fill_count_antecedent_only": {"found_by_tlc": len(dsc), "reproduced_on_code": n_div_conf},
        "seeded_partial_chunk_defect_divergences_found_by_tlc": len(rsc),
        "model_binding_mismatches_inside_the_quantifier": len(stats['mismatch_in']),
        "model_binding_mismatches_outside_the_quantifier": len(stats['mismatch_out']),
        "divergence_sample": ((isc or dsc or rsc)[0]["hist"]),
    })
    if stats['mismatch_out']:
        ctx.notes.append("SimCore mispredicts a simulator on %d scenario(s) OUTSIDE the precondition of C12 (first: %s) - the "
                         "model is out of date there; not a C12 verdict" % (len(stats['mismatch_out']),
                                                                          json.dumps(stats['mismatch_out'][0])[:600]))
    ctx.notes.append("outside the quantifier (exits NOT spaced wider than a trading candle moves) but with <= 1 resting fill per "
                     "trading candle in the normal run: TLC found %d chunk-end states on lattice 3 / chunk 3 where the fast simulator "
                     "differs from the normal one; %d reproduced on the real simulators%s" % (
                         len(dsc), n_div_conf, " (none: the repaired loop agrees on the fill-count antecedent alone)" if not dsc else ""))
    return stats['mismatch_in']


def replay_scenario(ctx, p):
    from . import simruns as R
    R.warm_parent()
    fixed = detect_inner_fix()
    stats = new_stats()
    res = bind(ctx, [p["scenario"]], "replay", stats, fixed)
    print("replay: normal %s fast %s; model mismatches %s" % (res[0][0], res[0][1], stats['mismatch_in'] + stats['mismatch_out']))
