"""C12: model part (SimEquiv.tla) and the binding of that model to the real simulators.

A *scenario* is what SimEquiv's ghost `hist` holds: a list of {"k":"feed","raw":[{o,c,h,l}..]} (one chunk of raw
one-minute candles on the price lattice) and {"k":"decide","row":{cancel,close,entry:{dir,p,sl,tp}}} (one strategy
decision per trading-candle boundary).  `run_scenario` executes it on the real research.backtest with a strategy
scripted by the rows; TraceSimModel.tla re-executes it with the model's operators and TLC compares."""
import json, random, re
import numpy as np
from .. import tlc, session as S
from ..core import Machinery

BASE, SCALE = 100.0, 10.0
TFNAME = {1: '1m', 3: '3m', 5: '5m', 15: '15m'}
NOENTRY = {"dir": 0, "p": 0, "sl": 0, "tp": 0}
IDLE = {"cancel": False, "close": False, "entry": NOENTRY}


def P(x):
    return BASE + SCALE * x


def lat(price):
    q = (float(price) - BASE) / SCALE
    if q != int(q):
        raise Machinery("price %r is not on the lattice" % (price,))
    return int(q)


def scenario_strategy(rows):
    from jesse.strategies import Strategy

    class Scenario(Strategy):
        def _row(self):
            return rows[self.index] if self.index < len(rows) else IDLE

        def should_cancel_entry(self):
            return bool(self._row()['cancel'])

        def should_long(self):
            return self._row()['entry']['dir'] == 1

        def should_short(self):
            return self._row()['entry']['dir'] == -1

        def _go(self):
            e = self._row()['entry']
            self.stop_loss = 1, P(e['sl'])
            self.take_profit = 1, P(e['tp'])
            return 1, P(e['p'])

        def go_long(self):
            self.buy = self._go()

        def go_short(self):
            self.sell = self._go()

        def update_position(self):
            if self._row()['close']:
                self.liquidate()

    return Scenario


def run_scenario(item):
    """item: dict(hist, chunk, tf (minutes), mode 'step'|'fast').  Returns fills on the lattice, balance delta, exc."""
    from jesse.models import Order
    hist = item['hist']
    raws = [c for e in hist if e['k'] == 'feed' for c in e['raw']]
    rows = [e['row'] for e in hist if e['k'] == 'decide']
    n = len(raws)
    cand = np.array([[S.T0 + i * S.MIN, P(c['o']), P(c['c']), P(c['h']), P(c['l']), 1.0] for i, c in enumerate(raws)])
    fills = []
    rec = S.Recorder()

    def pre(self_, *a, **k):
        return self_.status

    def post(tok, r, e, self_, *a, **k):
        if tok == 'ACTIVE' and self_.status != tok:
            fills.append([self_.side, self_.type, lat(self_.price), int((self_.executed_at - S.T0) // S.MIN)])
    rec._wrap(Order, 'execute', pre=pre, post=post)
    start = 10000.0
    try:
        routes = [{'symbol': 'BTC-USDT', 'timeframe': TFNAME[item['tf']]}]
        data = [{'symbol': 'BTC-USDT', 'timeframe': TFNAME[item['chunk']]}] if item['chunk'] != item['tf'] else []
        out = S.run_backtest(None, S.futures_config(balance=start, fee=0.0, lev=1, mode='cross'), {'BTC-USDT': cand},
                             routes=routes, data_routes=data, fast=(item['mode'] == 'fast'),
                             strategy_cls=scenario_strategy(rows))
    finally:
        rec.uninstall()
    exc = out['exc'].split(':')[0] if out['exc'] else 'none'
    bal = 0
    fin = out.get('final') or {}
    if exc == 'none':
        w = list(fin['accts'].values())[0]['wallet']
        q = (w - start) / SCALE
        if q != int(q):
            raise Machinery("wallet %r not on the lattice" % (w,))
        bal = int(q)
    return {"fills": fills, "bal": bal, "exc": exc, "exc_text": (out['exc'] or '')[:160]}


def model_part(ctx):
    pass


# ------------------------------------------------------------------------------------------------ scenarios
def rand_candle(rng, K, prev, gap_p):
    o = prev if (prev and rng.random() >= gap_p) else rng.randint(1, K)
    if rng.random() < 0.25:
        return {"o": o, "c": o, "h": o, "l": o}
    c = max(1, min(K, o + rng.randint(-2, 2)))
    h = min(K, max(o, c) + rng.choice([0, 0, 1, 2]))
    l = max(1, min(o, c) - rng.choice([0, 0, 1, 2]))
    return {"o": o, "c": c, "h": h, "l": l}


def rand_row(rng, K, wide):
    r = {"cancel": rng.random() < 0.25, "close": rng.random() < 0.15, "entry": NOENTRY}
    if rng.random() < 0.6:
        d = rng.choice([1, -1])
        p = rng.randint(2, K - 1)
        if wide:       # exits far away (inside the quantifier of C12 more often)
            lo, hi = 1, K
        else:
            lo, hi = rng.randint(1, p - 1), rng.randint(p + 1, K)
        r["entry"] = {"dir": d, "p": p, "sl": lo if d == 1 else hi, "tp": hi if d == 1 else lo}
    return r


def rand_scenario(rng, ragged=False):
    K = rng.choice([3, 4, 5, 6, 8])
    chunk, tf = rng.choice([(3, 3), (5, 5), (3, 15), (5, 15), (1, 1), (1, 3), (3, 3), (5, 5)])
    steps = rng.randint(2, 6 if tf < 15 else 3)
    gap_p = rng.choice([0.0, 0.2, 0.5])
    wide = rng.random() < 0.5
    hist, prev = [], 0
    n = tf * steps + (rng.randint(1, chunk - 1) if ragged and chunk > 1 else 0)
    mdone = 0
    while mdone < n:
        ln = min(chunk, n - mdone)
        raw = []
        for _ in range(ln):
            c = rand_candle(rng, K, prev, gap_p)
            raw.append(c)
            prev = c["c"]
        hist.append({"k": "feed", "raw": raw})
        mdone += ln
        if mdone % tf == 0 and ln == chunk:
            hist.append({"k": "decide", "row": rand_row(rng, K, wide)})
    return {"hist": hist, "chunk": chunk, "tf": tf, "K": K}


def run_scenarios(scens):
    jobs = []
    for sc in scens:
        jobs.append(dict(sc, mode='step'))
        jobs.append(dict(sc, mode='fast'))
    res = S.run_isolated(run_scenario, jobs, procs=16)
    for x in res:
        if isinstance(x, tuple) and x and x[0] == 'EXC':
            raise Machinery("scenario driver failed: %s" % x[1])
    return [(res[2 * j], res[2 * j + 1]) for j in range(len(scens))]


def scenario_trace(tid, sc, rn, rf):
    side = lambda r: {"fills": r["fills"], "bal": r["bal"], "exc": r["exc"]}
    return {"id": tid, "hdr": {"chunk": sc["chunk"], "tf": sc["tf"]}, "hist": sc["hist"], "norm": side(rn), "fast": side(rf)}
