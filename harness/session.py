"""Driving the real jesse code: process-state hygiene, object-level sessions, recorder wrappers,
policy-driven strategies for in-vivo backtests, candle generators, fork isolation.

No source hooks: everything here is installed at run time by the harness (guard JESSE_VERIF=1)."""
import os, sys, random, pickle, traceback, multiprocessing, hashlib
import numpy as np

T0 = 1609459200000          # 2021-01-01 00:00 UTC, aligned to every timeframe up to 1D
MIN = 60_000
FUT = 'Binance Perpetual Futures'
SPOT = 'Binance Spot'


# ------------------------------------------------------------------------------------------------
# process-state hygiene (so that a C11 defect can never surface as a verdict of another property)
# ------------------------------------------------------------------------------------------------
class _LazyDrivers(dict):
    """api.drivers replacement: a Sandbox driver exists for every exchange name asked for"""
    def __contains__(self, k):
        return True

    def __missing__(self, k):
        from jesse.exchanges import Sandbox
        self[k] = Sandbox(k)
        return self[k]


def reset_process_state():
    import jesse.helpers as jh
    from jesse.config import reset_config
    jh.CACHED_CONFIG.clear()
    m = sys.modules.get('jesse.services.api')
    if m is not None:
        m.api.drivers = _LazyDrivers()
    try:
        reset_config()
    except Exception:
        pass
    jh.CACHED_CONFIG.clear()


def run_isolated(fn, items, procs=16, chunk=1):
    """run fn(item) for every item in forked children (fork after import: each child starts from the parent's
    state, which must not have run a session).  Returns results in order; an exception in a child is returned
    as ('EXC', text)."""
    if not items:
        return []
    ctx = multiprocessing.get_context('fork')
    with ctx.Pool(processes=min(procs, len(items)), maxtasksperchild=chunk) as pool:
        return pool.map(_Guard(fn), items, chunksize=1)


class _Guard:
    def __init__(self, fn):
        self.fn = fn

    def __call__(self, item):
        try:
            return self.fn(item)
        except BaseException as ex:
            return ('EXC', '%s: %s\n%s' % (type(ex).__name__, ex, traceback.format_exc()[-1500:]))


# ------------------------------------------------------------------------------------------------
# candle generators (lattice: integer prices, integer volumes -> exact in float64)
# ------------------------------------------------------------------------------------------------
def lattice_walk(n, seed, start=100, step=2, wick=2, floor=20, flat_p=0.15, gap_p=0.1, ts0=T0, scale=1.0):
    """random walk on an integer lattice with frequent ties (flat candles, wicks of 0, close->open gaps)"""
    rng = random.Random(seed)
    c = np.zeros((n, 6))
    p = start
    for i in range(n):
        o = p
        if rng.random() < gap_p:
            o = max(floor, p + rng.randint(-step, step))
        if rng.random() < flat_p:
            cl, h, l = o, o, o
        else:
            cl = max(floor, o + rng.randint(-step, step))
            h = max(o, cl) + rng.randint(0, wick)
            l = max(floor - 1, min(o, cl) - rng.randint(0, wick))
        c[i] = [ts0 + i * MIN, o * scale, cl * scale, h * scale, l * scale, rng.randint(1, 100)]
        p = cl
    return c


def real_walk(n, seed, start=100.0, vol=0.004, ts0=T0):
    """real-valued series (for ranked checks)"""
    rng = np.random.default_rng(seed)
    c = np.zeros((n, 6))
    p = start
    for i in range(n):
        o = p * (1 + (rng.normal() * vol * 0.2 if rng.random() < 0.2 else 0))
        cl = o * (1 + rng.normal() * vol)
        h = max(o, cl) * (1 + abs(rng.normal()) * vol * 0.5)
        l = min(o, cl) * (1 - abs(rng.normal()) * vol * 0.5)
        c[i] = [ts0 + i * MIN, o, cl, h, l, float(rng.integers(1, 1000))]
        p = cl
    return c


# ------------------------------------------------------------------------------------------------
# object-level session: real Order / Position / Exchange objects without a strategy
# ------------------------------------------------------------------------------------------------
class ObjSession:
    """set_config(_format_config) + router.initiate + store.candles.init_storage + _prepare_routes + one candle.
    The position's strategy is a stub that does what the quantifier of C03 says the strategy layer does:
    when a position closes, everything resting on that symbol is cancelled."""

    def __init__(self, typ='futures', fee=0.0, lev=1, mode='cross', exchange=None, balance=1000.0,
                 symbols=('BTC-USDT',), price=100.0, cancel_on_close=True):
        import jesse.helpers as jh
        from jesse.strategies import Strategy
        from jesse.config import config as jc, set_config
        from jesse.routes import router
        from jesse.store import store
        from jesse.research.backtest import _format_config
        from jesse.modes import backtest_mode as bm
        reset_process_state()
        self.jh, self.store = jh, store
        self.ex = exchange or (FUT if typ == 'futures' else SPOT)
        self.symbols = list(symbols)

        class _P(Strategy):
            def should_long(self):
                return False

            def go_long(self):
                pass

        jc['app']['trading_mode'] = 'backtest'
        cfg = {'starting_balance': balance, 'fee': fee, 'type': typ, 'futures_leverage': lev,
               'futures_leverage_mode': mode, 'exchange': self.ex, 'warm_up_candles': 0}
        set_config(_format_config(cfg))
        router.initiate([{'exchange': self.ex, 'strategy': _P, 'symbol': s, 'timeframe': '1m'} for s in symbols], [])
        store.reset()
        store.candles.init_storage(50)
        store.app.time = T0 + MIN
        for s in symbols:
            store.candles.add_candle(np.array([T0, price, price, price, price, 1.0]), self.ex, s, '1m',
                                     with_execution=False, with_generation=False)
        bm._prepare_routes(None)
        reset_process_state_keep_config()
        self.exchange = store.exchanges.storage[self.ex]
        self.pos = {}
        self.orders = []
        sess = self

        class Stub:
            timeframe = '1m'
            name = 'stub'
            trades_count = 0
            leverage = lev

            def __init__(self, sym):
                self.sym = sym
                self.hook = None

            def _on_updated_position(self, order):
                p = store.positions.storage['%s-%s' % (sess.ex, self.sym)]
                if cancel_on_close and p.qty == 0:
                    for o in list(store.orders.get_active_orders(sess.ex, self.sym)):
                        if o.is_active:
                            o.cancel()
                    store.orders.reset_trade_orders(sess.ex, self.sym)
                if self.hook:
                    self.hook(order)

        for s in symbols:
            p = store.positions.storage['%s-%s' % (self.ex, s)]
            p.current_price = float(price)
            p.strategy = Stub(s)
            self.pos[s] = p

    def order(self, sym, side, typ, qty, price, ro=False):
        """create a real order (raises what jesse raises on rejection); registers it in the order store"""
        from jesse.models import Order
        o = Order({'id': self.jh.generate_unique_id(), 'symbol': sym, 'exchange': self.ex, 'side': side, 'type': typ,
                   'reduce_only': ro, 'qty': self.jh.prepare_qty(qty, side), 'price': price})
        self.store.orders.add_order(o)
        self.orders.append(o)
        return o

    def set_price(self, sym, price):
        self.pos[sym].current_price = float(price)


def reset_process_state_keep_config():
    import jesse.helpers as jh
    jh.CACHED_CONFIG.clear()
    m = sys.modules.get('jesse.services.api')
    if m is not None:
        m.api.drivers = _LazyDrivers()


# ------------------------------------------------------------------------------------------------
# recorder: setattr wrappers + strategy callbacks; events are raw Python values, checks encode them
# ------------------------------------------------------------------------------------------------
class Recorder:
    def __init__(self, **flags):
        self.ev = []
        self.oid = {}              # order uuid -> creation ordinal
        self.flags = flags
        self.depth = 0
        self._orig = []
        self.on_event = None

    # -- helpers
    def emit(self, k, **f):
        f['k'] = k
        f['seq'] = len(self.ev)
        self.ev.append(f)
        return f

    def ordinal(self, order):
        i = self.oid.get(id(order))
        if i is None:
            i = len(self.oid) + 1
            self.oid[id(order)] = i
            order._v_ord = i
            # keep the object alive: jesse drops cancelled orders from its stores when a trade closes, and a
            # recycled id() would give a later order the ordinal of a dead one
            self.__dict__.setdefault('_alive', []).append(order)
        return i

    def now_min(self):
        from jesse.store import store
        return int((store.app.time - T0) // MIN)

    def account(self, exchange_name):
        """small projected account state"""
        from jesse.store import store
        e = store.exchanges.storage[exchange_name]
        d = {'type': e.type}
        if e.type == 'futures':
            d['wallet'] = e.assets[e.settlement_currency]
            d['margin'] = e.available_margin
        else:
            d['assets'] = dict(e.assets)
        pos = {}
        for key, p in store.positions.storage.items():
            if p.exchange_name == exchange_name:
                pos[p.symbol] = {'qty': p.qty, 'entry': p.entry_price, 'price': p.current_price}
        d['pos'] = pos
        return d

    def _wrap(self, obj, name, pre=None, post=None):
        orig = getattr(obj, name)
        rec = self

        def w(*a, **k):
            tok = pre(*a, **k) if pre else None
            rec.depth += 1
            try:
                r = orig(*a, **k)
            except BaseException as e:
                rec.depth -= 1
                if post:
                    post(tok, None, e, *a, **k)
                raise
            rec.depth -= 1
            if post:
                post(tok, r, None, *a, **k)
            return r
        w._v_orig = orig
        setattr(obj, name, w)
        self._orig.append((obj, name, orig))

    def uninstall(self):
        for obj, name, orig in reversed(self._orig):
            setattr(obj, name, orig)
        self._orig = []

    # -- installation
    def install(self):
        from jesse.models import Order
        from jesse.modes import backtest_mode as bm
        from jesse.store import store
        rec = self
        snap = self.flags.get('account', False)

        def post_init(tok, r, e, self_, *a, **k):
            from jesse.store import store
            pos = store.positions.storage.get('%s-%s' % (self_.exchange, self_.symbol)) if getattr(self_, 'exchange', None) else None
            f = dict(oid=rec.ordinal(self_), sym=self_.symbol, side=self_.side, type=self_.type, qty=self_.qty,
                     price=self_.price, ro=bool(self_.reduce_only), t=rec.now_min(), depth=rec.depth,
                     cur=(pos.current_price if pos is not None else None),
                     exc=(type(e).__name__ if e is not None else 'none'))
            if snap:
                f['acct'] = rec.account(self_.exchange)
            rec.emit('submit' if e is None else 'reject', **f)

        self._wrap(Order, '__init__', post=post_init)

        def pre_exec(self_, *a, **k):
            tok = {'status': self_.status}
            if snap:
                tok['acct'] = rec.account(self_.exchange)
            f = rec.emit('exec_begin', oid=rec.ordinal(self_), sym=self_.symbol, status=self_.status, t=rec.now_min(),
                         depth=rec.depth, price=self_.price, qty=self_.qty, side=self_.side, type=self_.type,
                         ro=bool(self_.reduce_only))
            if snap:
                f['acct'] = tok['acct']
            return tok

        def post_exec(tok, r, e, self_, *a, **k):
            f = rec.emit('exec_end', oid=rec.ordinal(self_), sym=self_.symbol, pre=tok['status'], status=self_.status,
                         t=rec.now_min(), depth=rec.depth, exc=(type(e).__name__ if e is not None else 'none'))
            if snap:
                f['acct'] = rec.account(self_.exchange)

        self._wrap(Order, 'execute', pre=pre_exec, post=post_exec)

        def pre_cancel(self_, *a, **k):
            tok = {'status': self_.status}
            f = rec.emit('cancel_begin', oid=rec.ordinal(self_), sym=self_.symbol, status=self_.status, t=rec.now_min(),
                         depth=rec.depth)
            if snap:
                f['acct'] = rec.account(self_.exchange)
            return tok

        def post_cancel(tok, r, e, self_, *a, **k):
            f = rec.emit('cancel_end', oid=rec.ordinal(self_), sym=self_.symbol, pre=tok['status'], status=self_.status,
                         t=rec.now_min(), depth=rec.depth, exc=(type(e).__name__ if e is not None else 'none'))
            if snap:
                f['acct'] = rec.account(self_.exchange)

        self._wrap(Order, 'cancel', pre=pre_cancel, post=post_cancel)

        def pre_min(candle, exchange, symbol):
            rec.emit('minute', sym=symbol, ex=exchange, t=rec.now_min(), candle=[float(x) for x in candle])

        def pos_state(exchange, symbol):
            """position after matching (additive fields of minute_end / chunk_end: a liquidation check that was
            skipped altogether leaves no liqcheck event, the state at the end of the candle still shows it)"""
            from jesse.store import store
            try:
                p = store.positions.storage['%s-%s' % (exchange, symbol)]
                liq = None
                if p.is_open and p.exchange.type == 'futures':
                    liq = p.liquidation_price
                return dict(qty=p.qty, entry=p.entry_price, liq=liq, count=store.app.total_liquidations)
            except Exception:
                return {}

        def post_min(tok, r, e, candle, exchange, symbol):
            rec.emit('minute_end', sym=symbol, t=rec.now_min(), exc=(type(e).__name__ if e is not None else 'none'),
                     **pos_state(exchange, symbol))

        self._wrap(bm, '_simulate_price_change_effect', pre=pre_min, post=post_min)

        def pre_chunk(candles, exchange, symbol):
            rec.emit('chunk', sym=symbol, ex=exchange, t=rec.now_min(), candles=[[float(x) for x in c] for c in candles])

        def post_chunk(tok, r, e, candles, exchange, symbol):
            rec.emit('chunk_end', sym=symbol, t=rec.now_min(), exc=(type(e).__name__ if e is not None else 'none'),
                     **pos_state(exchange, symbol))

        self._wrap(bm, '_simulate_price_change_effect_multiple_candles', pre=pre_chunk, post=post_chunk)

        def pre_liq(candle, exchange, symbol):
            from jesse.store import store
            p = store.positions.storage['%s-%s' % (exchange, symbol)]
            liq = None
            try:
                if p.is_open and p.exchange.type == 'futures':
                    liq = p.liquidation_price
            except Exception:
                liq = None
            f = rec.emit('liqcheck', sym=symbol, ex=exchange, t=rec.now_min(), candle=[float(x) for x in candle],
                         qty=p.qty, entry=p.entry_price, liq=liq, mode=getattr(p, 'mode', None),
                         count=store.app.total_liquidations)
            if snap:
                f['acct'] = rec.account(exchange)
            return None

        def post_liq(tok, r, e, candle, exchange, symbol):
            from jesse.store import store
            p = store.positions.storage['%s-%s' % (exchange, symbol)]
            f = rec.emit('liqcheck_end', sym=symbol, t=rec.now_min(), qty=p.qty, count=store.app.total_liquidations,
                         exc=(type(e).__name__ if e is not None else 'none'))
            if snap:
                f['acct'] = rec.account(exchange)

        self._wrap(bm, '_check_for_liquidations', pre=pre_liq, post=post_liq)

        def post_daily(tok, r, e, *a, **k):
            from jesse.store import store
            rec.emit('daily', t=rec.now_min(), n=len(store.app.daily_balance),
                     value=(store.app.daily_balance[-1] if store.app.daily_balance else None),
                     accts={name: rec.account(name) for name in store.exchanges.storage},
                     active=[dict(sym=o.symbol, side=o.side, qty=o.qty, price=o.price, type=o.type, ro=bool(o.reduce_only))
                             for o in store.orders.get_all_orders_flat() if o.is_active] if hasattr(store.orders, 'get_all_orders_flat') else rec._active_orders())

        self._wrap(bm, 'save_daily_portfolio_balance', post=post_daily)
        return self

    def _active_orders(self):
        from jesse.store import store
        res = []
        for key, lst in store.orders.storage.items():
            for o in lst:
                if o.is_active:
                    res.append(dict(sym=o.symbol, ex=o.exchange, side=o.side, qty=o.qty, price=o.price, type=o.type,
                                    ro=bool(o.reduce_only)))
        return res


# ------------------------------------------------------------------------------------------------
# policy-driven strategy for in-vivo runs
# ------------------------------------------------------------------------------------------------
DEFAULT_POLICY = dict(
    seed=0, tick=1.0, qtys=(1, 2), entry_every=7, long_phase=1, short_phase=4, allow_short=True,
    entry_offsets=(0, 0, -1, -2, 1, 2),   # 0 -> market, <0 limit (better), >0 stop (worse) for a long; mirrored for a short
    max_entry_rows=2, sl_dist=(3, 6), tp_dist=(2, 5), max_exit_rows=2, exits_in='go',   # 'go' | 'on_open' | 'mixed'
    p_cancel=0.3, p_edit=0.15, p_liquidate=0.03, p_edit_on_reduced=0.3, oversize_sl=False, no_sl=False, no_tp=False,
    spot=False,
)


def _h(*parts):
    s = '|'.join(str(p) for p in parts).encode()
    return int.from_bytes(hashlib.blake2b(s, digest_size=8).digest(), 'big')


def make_policy_strategy(policy, rec=None, observe=None):
    """returns a Strategy subclass whose decisions are deterministic functions of (policy seed, hook, index,
    position side) - i.e. of observables only.  `observe(strategy, hook_name, order)` is called in every hook."""
    from jesse.strategies import Strategy
    P = dict(DEFAULT_POLICY)
    P.update(policy or {})
    if P['spot']:
        P['exits_in'] = 'on_open'

    class PolicyStrategy(Strategy):
        POLICY = P

        def _r(self, hook):
            side = 0 if self.position.qty == 0 else (1 if self.position.qty > 0 else -1)
            return random.Random(_h(P['seed'], self.symbol, hook, self.index, side))

        def _obs(self, name, order=None):
            if observe:
                observe(self, name, order)

        # --- entries
        def should_long(self):
            return self.index % P['entry_every'] == P['long_phase']

        def should_short(self):
            return P['allow_short'] and not P['spot'] and self.index % P['entry_every'] == P['short_phase']

        def _rows(self, r, sign):
            n = r.randint(1, P['max_entry_rows'])
            rows = []
            for _ in range(n):
                off = r.choice(P['entry_offsets'])
                rows.append((r.choice(P['qtys']), self.price + sign * off * P['tick']))
            return rows

        def _exits(self, r, sign, total):
            """stop-loss and take-profit ladders for a position of `total` on side `sign`"""
            def ladder(dist_rng, direction):
                n = r.randint(1, P['max_exit_rows'])
                base = self.price
                rows, left = [], total
                for j in range(n):
                    q = left if j == n - 1 else min(left, r.choice(P['qtys']))
                    if q <= 0:
                        break
                    rows.append((q, base + direction * (r.randint(*dist_rng) + j) * P['tick']))
                    left -= q
                return rows
            sl = ladder(P['sl_dist'], -sign)
            tp = ladder(P['tp_dist'], sign)
            if P['oversize_sl']:
                sl = [(total, sl[0][1])]
            return sl, tp

        def go_long(self):
            r = self._r('go_long')
            self.buy = self._rows(r, -1)
            if P['exits_in'] == 'go' or (P['exits_in'] == 'mixed' and r.random() < 0.5):
                self._set_exits(r, 1, sum(q for q, _ in self.buy))
            self._obs('go_long')

        def go_short(self):
            r = self._r('go_short')
            self.sell = self._rows(r, 1)
            if P['exits_in'] == 'go' or (P['exits_in'] == 'mixed' and r.random() < 0.5):
                self._set_exits(r, -1, sum(q for q, _ in self.sell))
            self._obs('go_short')

        def _set_exits(self, r, sign, total):
            sl, tp = self._exits(r, sign, total)
            if not P['no_sl'] and not P['spot']:
                self.stop_loss = sl
            elif not P['no_sl'] and P['spot'] and self.position.qty != 0:
                self.stop_loss = sl
            if not P['no_tp'] and (not P['spot'] or self.position.qty != 0):
                self.take_profit = tp

        def should_cancel_entry(self):
            return self._r('cancel').random() < P['p_cancel']

        # --- position management
        def on_open_position(self, order):
            r = self._r('on_open')
            if (self.stop_loss is None and self.take_profit is None) or P['exits_in'] == 'on_open':
                sign = 1 if self.position.qty > 0 else -1
                self._set_exits(r, sign, abs(self.position.qty))
            self._obs('on_open_position', order)

        def on_increased_position(self, order):
            if P['spot']:
                self._set_exits(self._r('on_inc'), 1, abs(self.position.qty))
            self._obs('on_increased_position', order)

        def on_reduced_position(self, order):
            r = self._r('on_reduced')
            if r.random() < P['p_edit_on_reduced'] and self.position.qty != 0:
                sign = 1 if self.position.qty > 0 else -1
                # move the stop to break-even-ish for what is left
                if not P['no_sl']:
                    self.stop_loss = abs(self.position.qty), self.position.entry_price - sign * r.randint(1, 3) * P['tick']
            self._obs('on_reduced_position', order)

        def on_close_position(self, order):
            self._obs('on_close_position', order)

        def update_position(self):
            r = self._r('update')
            x = r.random()
            if x < P['p_liquidate']:
                self.liquidate()
            elif x < P['p_liquidate'] + P['p_edit'] and self.position.qty != 0:
                sign = 1 if self.position.qty > 0 else -1
                sl, tp = self._exits(r, sign, abs(self.position.qty))
                which = r.choice(['sl', 'tp', 'both'])
                if which in ('sl', 'both') and not P['no_sl']:
                    self.stop_loss = sl
                if which in ('tp', 'both') and not P['no_tp']:
                    self.take_profit = tp
            self._obs('update_position')

        def before(self):
            self._obs('before')

        def after(self):
            self._obs('after')

        def terminate(self):
            self._obs('terminate')

    return PolicyStrategy


def run_backtest(policy, config, candles, routes=None, data_routes=None, fast=False, rec=None, observe=None,
                 strategy_cls=None, warmup=None, hyperparameters=None):
    """one real research.backtest call under process-state hygiene.  candles: {symbol: ndarray}.
    Returns dict(result|exc, store snapshot items gathered before the reset by a wrapper)."""
    from jesse.research import backtest
    reset_process_state()
    ex = config['exchange']
    cls = strategy_cls or make_policy_strategy(policy, rec, observe)
    if routes is None:
        routes = [{'exchange': ex, 'strategy': cls, 'symbol': s, 'timeframe': '1m'} for s in candles]
    else:
        routes = [dict(r, exchange=ex, strategy=r.get('strategy', cls)) for r in routes]
    data_routes = [dict(r, exchange=ex) for r in (data_routes or [])]
    cd = {'%s-%s' % (ex, s): {'exchange': ex, 'symbol': s, 'candles': c} for s, c in candles.items()}
    wd = None
    if warmup:
        wd = {'%s-%s' % (ex, s): {'exchange': ex, 'symbol': s, 'candles': c} for s, c in warmup.items()}
    out = {}
    from jesse.modes import backtest_mode as bm
    orig_go = bm._generate_outputs

    def go(*a, **k):
        try:
            out['final'] = capture_final()
        except Exception as e:      # never let the observer change the run
            out['final'] = {'capture_error': repr(e)}
        return orig_go(*a, **k)
    bm._generate_outputs = go
    try:
        out['result'] = backtest(config, routes, data_routes, cd, warmup_candles=wd, fast_mode=fast,
                                 hyperparameters=hyperparameters)
        out['exc'] = None
    except Exception as e:
        out['result'] = None
        out['exc'] = '%s: %s' % (type(e).__name__, str(e)[:300])
        out['tb'] = traceback.format_exc()[-2000:]
        try:
            out['final'] = capture_final()
        except Exception as e2:
            out['final'] = {'capture_error': repr(e2)}
    finally:
        bm._generate_outputs = orig_go
    return out


def capture_final():
    """what a caller could read from the store at the end of the simulation (before research.backtest resets it)"""
    from jesse.store import store
    trades = []
    for t in store.completed_trades.trades:
        trades.append(dict(sym=t.symbol, type=t.type, qty=t.qty, entry=t.entry_price, exit=t.exit_price, pnl=t.pnl,
                           fee=t.fee, opened_at=t.opened_at, closed_at=t.closed_at,
                           orders=[getattr(o, '_v_ord', 0) for o in t.orders]))
    orders = []
    for key, lst in store.orders.storage.items():
        for o in lst:
            orders.append(dict(oid=getattr(o, '_v_ord', 0), sym=o.symbol, side=o.side, type=o.type, qty=o.qty, price=o.price,
                               ro=bool(o.reduce_only), status=o.status, created_at=o.created_at,
                               executed_at=o.executed_at, canceled_at=o.canceled_at, via=o.submitted_via))
    accts = {}
    for name, e in store.exchanges.storage.items():
        accts[name] = dict(type=e.type, assets=dict(e.assets),
                           wallet=(e.assets[e.settlement_currency] if e.type == 'futures' else None))
    pos = {k: dict(qty=p.qty, entry=p.entry_price, price=p.current_price) for k, p in store.positions.storage.items()}
    return dict(trades=trades, orders=orders, accts=accts, pos=pos, daily=list(store.app.daily_balance),
                liquidations=store.app.total_liquidations, time=store.app.time)


def futures_config(balance=10000, fee=0.0, lev=2, mode='cross', warmup=0, exchange=FUT):
    return {'starting_balance': balance, 'fee': fee, 'type': 'futures', 'futures_leverage': lev,
            'futures_leverage_mode': mode, 'exchange': exchange, 'warm_up_candles': warmup}


def spot_config(balance=10000, fee=0.0, warmup=0, exchange=SPOT):
    return {'starting_balance': balance, 'fee': fee, 'type': 'spot', 'futures_leverage': 1,
            'futures_leverage_mode': 'cross', 'exchange': exchange, 'warm_up_candles': warmup}
