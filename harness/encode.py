"""Encoders between Python values and what TLC's JSON reader can take: ints (< 2^31), strings,
booleans, arrays, objects.  Floats and None are refused (TLC truncates 1.5 to 1 and rejects null)."""
import json, math
from fractions import Fraction

LIM = 2 ** 31 - 1


class EncodeError(Exception):
    pass


def check(obj, path="$"):
    if isinstance(obj, bool) or isinstance(obj, str):
        return
    if isinstance(obj, int):
        if abs(obj) > LIM:
            raise EncodeError("integer out of 31-bit range at %s: %r" % (path, obj))
        return
    if isinstance(obj, (list, tuple)):
        for i, v in enumerate(obj):
            check(v, "%s[%d]" % (path, i))
        return
    if isinstance(obj, dict):
        for k, v in obj.items():
            if not isinstance(k, str):
                raise EncodeError("non-string key at %s: %r" % (path, k))
            check(v, path + "." + k)
        return
    raise EncodeError("value TLC cannot read at %s: %r (%s)" % (path, obj, type(obj).__name__))


def dump(obj, path):
    check(obj)
    with open(path, "w") as f:
        json.dump(obj, f, separators=(",", ":"))


def exact_int(x, unit=1.0, what="value"):
    """float that must be an exact multiple of `unit` -> integer count of units"""
    q = Fraction(x) / Fraction(unit)
    if q.denominator != 1:
        raise EncodeError("%s=%r is not an exact multiple of %r" % (what, x, unit))
    return int(q)


def scaled(x, unit):
    """round(x/unit) for tolerance-compared fields; NaN/inf sentinels are strings"""
    if isinstance(x, float) and (math.isnan(x) or math.isinf(x)):
        return "nan" if math.isnan(x) else ("inf" if x > 0 else "-inf")
    return int(round(Fraction(x) / Fraction(unit)))


def rat(x):
    """exact rational of a float as [num, den] (gcd-normalised); refuses > 31 bit"""
    f = Fraction(x)
    if abs(f.numerator) > LIM or f.denominator > LIM:
        raise EncodeError("rational of %r does not fit 31 bits" % (x,))
    return [f.numerator, f.denominator]


def ranks(values):
    """order-isomorphic dense ranks (1-based) of a list of floats; equal floats get equal ranks"""
    uniq = sorted(set(values))
    idx = {v: i + 1 for i, v in enumerate(uniq)}
    return [idx[v] for v in values]
